#!/bin/sh
# Determinism self-test (DESIGN.md §6.1): the same seeds must give the same scenarios,
# op logs, violations and statistics in separate processes and at several worker counts.
#   ./selftest.sh [runs]      exit 0 = identical, 1 = divergence
#   VERIF_DIGEST_FROM=29000 ./selftest.sh 30320   only the tail of the quick batch (C10: the
#                             real-file-system stratum next to simulated histories)
DIR="$(cd "$(dirname "$0")" && pwd)"
RUNS="${1:-2000}"
export VERIF_DIR="$DIR"
cd "$DIR/sim" && cargo build --release --offline >"$DIR/sim/build.log" 2>&1 || { echo "build failed"; exit 2; }
TMP="$(mktemp -d /dev/shm/dvsim-selftest.XXXXXX)"
status=0
for prop in C10 C11; do
    for seed in 1 7; do
        VERIF_SEED=$seed "$DIR/target/release/dvsim" digest $prop "$RUNS" 1 "$TMP/$prop-$seed-w1" &
        VERIF_SEED=$seed "$DIR/target/release/dvsim" digest $prop "$RUNS" 4 "$TMP/$prop-$seed-w4" &
        wait
        VERIF_SEED=$seed "$DIR/target/release/dvsim" digest $prop "$RUNS" 16 "$TMP/$prop-$seed-w16a"
        VERIF_SEED=$seed "$DIR/target/release/dvsim" digest $prop "$RUNS" 16 "$TMP/$prop-$seed-w16b"
        for other in w4 w16a w16b; do
            if ! cmp -s "$TMP/$prop-$seed-w1" "$TMP/$prop-$seed-$other"; then
                echo "DIVERGENCE property=$prop seed=$seed w1 vs $other:"
                diff "$TMP/$prop-$seed-w1" "$TMP/$prop-$seed-$other" | head -5
                status=1
            fi
        done
        echo "$prop seed=$seed: $(wc -l < "$TMP/$prop-$seed-w1") runs x 4 executions compared, $(grep -c ERROR "$TMP/$prop-$seed-w1") errors"
    done
done
rm -rf "$TMP"
[ $status -eq 0 ] && echo "selftest: deterministic"
exit $status
