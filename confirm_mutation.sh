#!/bin/sh
# Confirm a seeded change in its scratch worktree: demo fails with it, the existing suite
# passes with it, demo passes without it. Usage: confirm_mutation.sh <worktree> <id>
WT="$1"; ID="$2"
OUT="/verif/seeded/$ID"; mkdir -p "$OUT"
cd "$WT" || exit 2
cp _mutation/patch.diff "$OUT/patch.diff"
cp _mutation/mutation_demo.rs "$OUT/mutation_demo.rs"
cp _mutation/README.md "$OUT/agent_README.md" 2>/dev/null
git checkout -q -- . ; rm -f tests/mutation_demo.rs
git apply _mutation/patch.diff || { echo "patch does not apply" > "$OUT/confirm.log"; exit 2; }
cp _mutation/mutation_demo.rs tests/mutation_demo.rs
{
echo "== demo WITH change (expected: fails)"
cargo test --offline --test mutation_demo -- --test-threads=1 2>&1 | grep -E "^test |test result" ; 
rm -f tests/mutation_demo.rs
echo "== existing suite WITH change (expected: passes)"
cargo test --workspace --no-fail-fast --offline 2>&1 | grep -E "^test result|FAILED|failed" 
git apply -R _mutation/patch.diff
cp _mutation/mutation_demo.rs tests/mutation_demo.rs
echo "== demo WITHOUT change (expected: passes)"
cargo test --offline --test mutation_demo -- --test-threads=1 2>&1 | grep -E "^test |test result"
rm -f tests/mutation_demo.rs
} > "$OUT/confirm.log" 2>&1
echo "confirmed $ID"; tail -3 "$OUT/confirm.log"
