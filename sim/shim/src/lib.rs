//! LD_PRELOAD shim for the real `darklua` binary (tier B): `std` seeds `RandomState`
//! through `getrandom`; when DVSIM_HASH_SEED is set the bytes come from that seed so that
//! hash-map iteration order in the subprocess is a function of the scenario.

use std::sync::atomic::{AtomicU64, Ordering};

static STATE: AtomicU64 = AtomicU64::new(0);
static INIT: AtomicU64 = AtomicU64::new(0); // 0 = unknown, 1 = seeded, 2 = pass through

extern "C" {
    fn getenv(name: *const u8) -> *const u8;
    fn syscall(number: i64, ...) -> i64;
}

const SYS_GETRANDOM: i64 = 318; // x86_64

fn splitmix(x: u64) -> (u64, u64) {
    let s = x.wrapping_add(0x9E37_79B9_7F4A_7C15);
    let mut z = s;
    z = (z ^ (z >> 30)).wrapping_mul(0xBF58_476D_1CE4_E5B9);
    z = (z ^ (z >> 27)).wrapping_mul(0x94D0_49BB_1331_11EB);
    (s, z ^ (z >> 31))
}

unsafe fn init() -> u64 {
    let mode = INIT.load(Ordering::SeqCst);
    if mode != 0 {
        return mode;
    }
    let ptr = getenv(b"DVSIM_HASH_SEED\0".as_ptr());
    if ptr.is_null() {
        INIT.store(2, Ordering::SeqCst);
        return 2;
    }
    let mut value: u64 = 0;
    let mut p = ptr;
    while *p != 0 {
        let c = *p;
        if c.is_ascii_digit() {
            value = value.wrapping_mul(10).wrapping_add((c - b'0') as u64);
        }
        p = p.add(1);
    }
    STATE.store(value, Ordering::SeqCst);
    INIT.store(1, Ordering::SeqCst);
    1
}

/// # Safety
/// libc contract: `buf` valid for `len` bytes.
#[no_mangle]
pub unsafe extern "C" fn getrandom(buf: *mut u8, len: usize, flags: u32) -> isize {
    if init() == 2 {
        return syscall(SYS_GETRANDOM, buf, len, flags) as isize;
    }
    let mut i = 0usize;
    while i < len {
        let (s, v) = splitmix(STATE.load(Ordering::SeqCst));
        STATE.store(s, Ordering::SeqCst);
        let bytes = v.to_le_bytes();
        let mut k = 0;
        while k < 8 && i < len {
            *buf.add(i) = bytes[k];
            i += 1;
            k += 1;
        }
    }
    len as isize
}
