//! dvsim — deterministic simulation of darklua's frontend with fault injection.
//! See /verif/DESIGN.md.

#![allow(dead_code)]

#[allow(dead_code)]
#[path = "/repo/src/cli/mod.rs"]
mod cli;

mod c10;
mod c10gen;
mod c11;
mod c11enum;
mod calibrate;
mod corpus;
mod driver;
mod exec;
mod gen;
mod include_rule;
mod l2;
mod lw;
mod model;
mod rng;
mod simfs;
mod tierb;

use std::{fs::File, os::fd::FromRawFd, path::Path};

use driver::Property;

fn usage() -> ! {
    eprintln!("usage: dvsim check <C10|C11> [--tier quick|thorough] | replay <file> | show <C10|C11> <index>");
    std::process::exit(2);
}

/// Code under test prints (`report_process`); keep our own stdout on a private fd and send
/// fds 1 and 2 to /dev/null.
fn isolate_stdout() {
    unsafe {
        let saved = libc::dup(1);
        let devnull = libc::open(b"/dev/null\0".as_ptr() as *const libc::c_char, libc::O_WRONLY);
        if saved >= 0 && devnull >= 0 {
            libc::dup2(devnull, 1);
            if std::env::var_os("VERIF_KEEP_STDERR").is_none() {
                libc::dup2(devnull, 2);
            }
            libc::close(devnull);
            *driver::OUT.lock().unwrap() = Some(File::from_raw_fd(saved));
        }
    }
}

fn main() {
    let args: Vec<String> = std::env::args().skip(1).collect();
    if args.is_empty() {
        usage();
    }
    isolate_stdout();
    exec::install_panic_hook();
    exec::install_capture_logger();
    let seed: u64 = std::env::var("VERIF_SEED")
        .ok()
        .and_then(|v| v.parse().ok())
        .unwrap_or(1);
    let props: Vec<&dyn Property> = vec![&c10::C10, &c11::C11];
    match args[0].as_str() {
        "check" => {
            let id = args.get(1).map(String::as_str).unwrap_or_else(|| usage());
            let mut tier = std::env::var("VERIF_TIER").unwrap_or_else(|_| "quick".to_owned());
            let mut i = 2;
            while i < args.len() {
                if args[i] == "--tier" && i + 1 < args.len() {
                    tier = args[i + 1].clone();
                    i += 1;
                }
                i += 1;
            }
            if tier != "quick" && tier != "thorough" {
                usage();
            }
            let prop = match props.iter().find(|p| p.id() == id) {
                Some(p) => *p,
                None => usage(),
            };
            let outcome = driver::run_batch(prop, &tier, seed);
            std::process::exit(outcome.exit_code);
        }
        "replay" => {
            let path = args.get(1).unwrap_or_else(|| usage());
            std::process::exit(driver::replay_file(&props, Path::new(path)));
        }
        "shard" => {
            // shard <C10|C11> <tier> <total> <k> <shards> <out-file>   (internal)
            let id = args.get(1).map(String::as_str).unwrap_or_else(|| usage());
            let tier = args.get(2).cloned().unwrap_or_else(|| usage());
            let total: usize = args.get(3).and_then(|v| v.parse().ok()).unwrap_or_else(|| usage());
            let k: usize = args.get(4).and_then(|v| v.parse().ok()).unwrap_or_else(|| usage());
            let shards: usize = args.get(5).and_then(|v| v.parse().ok()).unwrap_or_else(|| usage());
            let out = args.get(6).unwrap_or_else(|| usage());
            let prop = match props.iter().find(|p| p.id() == id) {
                Some(p) => *p,
                None => usage(),
            };
            std::process::exit(driver::run_shard(prop, &tier, seed, total, k, shards, Path::new(out)));
        }
        "calibrate" => {
            let default = driver::verif_dir().join("calibration.json");
            let path = args.get(1).map(std::path::PathBuf::from).unwrap_or(default);
            std::process::exit(calibrate::run(&path));
        }
        "digest" => {
            // digest <C10|C11> <runs> <workers> <out-file>
            let id = args.get(1).map(String::as_str).unwrap_or_else(|| usage());
            let runs: usize = args.get(2).and_then(|v| v.parse().ok()).unwrap_or(1000);
            let workers: usize = args.get(3).and_then(|v| v.parse().ok()).unwrap_or(16);
            let path = args.get(4).unwrap_or_else(|| usage());
            let prop = match props.iter().find(|p| p.id() == id) {
                Some(p) => *p,
                None => usage(),
            };
            std::process::exit(driver::digest_batch(prop, "quick", seed, runs, workers, Path::new(path)));
        }
        "show" => {
            let id = args.get(1).map(String::as_str).unwrap_or_else(|| usage());
            let index: usize = args.get(2).and_then(|v| v.parse().ok()).unwrap_or(0);
            let prop = match props.iter().find(|p| p.id() == id) {
                Some(p) => *p,
                None => usage(),
            };
            let tier = args.get(3).cloned().unwrap_or_else(|| "quick".to_owned());
            match prop.run(seed, index, &tier) {
                Ok(report) => {
                    outln!("{}", serde_json::to_string_pretty(&report.scenario).unwrap());
                    for v in &report.violations {
                        outln!("violation {:?}: {}", v.sig, v.message);
                    }
                    outln!("stats: {}", report.stats);
                }
                Err(err) => outln!("HARNESS-ERROR: {}", err),
            }
        }
        _ => usage(),
    }
}
