//! Plain-data description of a simulated run. The PRNG only *produces* these values;
//! executing one draws no randomness, so a replay file is just one of these.

use serde::{Deserialize, Serialize};

use crate::simfs::{FaultRule, SimFs};

#[derive(Clone, Debug, PartialEq, Eq, Serialize, Deserialize)]
pub enum Body {
    Text(String),
    /// bytes that are not valid UTF-8, hex encoded
    Hex(String),
    Dir,
    /// a symbolic link (real file system only, e.g. to /dev/full)
    Symlink(String),
}

impl Body {
    pub fn bytes(&self) -> Option<Vec<u8>> {
        match self {
            Body::Text(t) => Some(t.as_bytes().to_vec()),
            Body::Hex(h) => Some(
                (0..h.len() / 2)
                    .map(|i| u8::from_str_radix(&h[2 * i..2 * i + 2], 16).unwrap_or(0))
                    .collect(),
            ),
            Body::Dir | Body::Symlink(_) => None,
        }
    }
    pub fn from_bytes(bytes: &[u8]) -> Body {
        match std::str::from_utf8(bytes) {
            Ok(t) => Body::Text(t.to_owned()),
            Err(_) => Body::Hex(bytes.iter().map(|b| format!("{:02x}", b)).collect()),
        }
    }
}

#[derive(Clone, Debug, PartialEq, Eq, Serialize, Deserialize)]
pub struct FsEntry {
    /// relative to the simulated cwd, `/`-separated, normalised
    pub path: String,
    pub body: Body,
}

#[derive(Clone, Debug, PartialEq, Eq, Serialize, Deserialize)]
pub enum ConfigSource {
    /// `Options::with_configuration(json5::from_str(text))`
    Object(String),
    /// no configuration given: darklua looks for `.darklua.json` / `.darklua.json5`
    Default,
    /// `Options::with_configuration_at(path)`
    At(String),
}

#[derive(Clone, Debug, PartialEq, Eq, Serialize, Deserialize)]
pub struct OptSpec {
    pub input: String,
    pub output: Option<String>,
    pub config: ConfigSource,
    pub fail_fast: bool,
    /// "dense" | "readable" | "retain_lines"
    pub generator_override: Option<String>,
    /// when present, the harness rule `verif_include` is appended to the configuration
    /// object with this source -> dependencies table (DESIGN.md §4.4)
    #[serde(default, skip_serializing_if = "Option::is_none")]
    pub include_deps: Option<std::collections::BTreeMap<String, Vec<String>>>,
}

#[derive(Clone, Copy, Debug, PartialEq, Eq, Serialize, Deserialize)]
pub enum Backend {
    SimFs,
    Memory,
    /// tier B: real file system (tmpfs scratch directory) and the real darklua binary
    RealFs,
    /// tier B': real file system through the library (`Resources::from_file_system()` in
    /// this process, with the scratch directory as working directory)
    RealLib,
}

pub fn populate(fs: &SimFs, entries: &[FsEntry]) {
    for entry in entries {
        match &entry.body {
            Body::Dir => fs.user_mkdir(&entry.path),
            Body::Symlink(_) => {}
            other => fs.user_write(&entry.path, &other.bytes().unwrap_or_default()),
        }
    }
}

// ---------------------------------------------------------------- C11

#[derive(Clone, Debug, PartialEq, Eq, Serialize, Deserialize)]
pub struct SourceMeta {
    pub path: String,
    /// sources / data files this one requires (paths relative to cwd)
    pub requires: Vec<String>,
}

#[derive(Clone, Debug, PartialEq, Eq, Serialize, Deserialize)]
pub struct C11Scenario {
    pub seed: u64,
    pub backend: Backend,
    pub entries: Vec<FsEntry>,
    pub opts: OptSpec,
    /// the harness's own picture of the Lua sources under the input
    pub sources: Vec<SourceMeta>,
    /// files that cannot be read / parsed / transformed by construction (content faults,
    /// persistent `get` faults, cycle members): the reference run deletes them
    pub bad_files: Vec<String>,
    /// sources whose destination cannot be written (persistent write faults, structural
    /// EISDIR / ENOTDIR): the reference keeps them
    pub unwritable: Vec<String>,
    pub faults: Vec<FaultRule>,
    /// true when `faults` contains an n-th-call (transient) fault: the faulty set then
    /// depends on processing order and is taken from the error report
    pub transient: bool,
    pub walk_seed: u64,
    pub hash_seed: u64,
    pub alt_walk_seed: u64,
    pub alt_hash_seed: u64,
    /// the reference run keeps the bad files (only injected faults are dropped): set when
    /// the *existence* of a file influences its healthy siblings (`convert_require`
    /// resolves required paths but never reads them)
    #[serde(default)]
    pub keep_bad_in_reference: bool,
    /// sources that may or may not be processable (a script starting with `#!`: refused
    /// by the token-preserving parser of this darklua version, accepted otherwise): the
    /// reference run leaves them out, they may be reported or written, and nothing is
    /// demanded of them - only of the files around them
    #[serde(default)]
    pub maybe_bad: Vec<String>,
    /// darklua runs with trace-level logging enabled (debug aids such as the AST dump
    /// written at the output location before code generation become active)
    #[serde(default)]
    pub trace_logs: bool,
}

// ---------------------------------------------------------------- C10

#[derive(Clone, Debug, PartialEq, Eq, Serialize, Deserialize)]
pub enum Op {
    /// write `body` at `path` (existing source / module / data / config file)
    Edit { path: String, body: Body },
    /// rewrite identical bytes
    Touch { path: String },
    /// create a new file
    Add { path: String, body: Body },
    RemoveFile { path: String },
    RemoveDir { path: String },
    Rename { from: String, to: String },
    /// replace the configuration object (only when the configuration is given as an object)
    ConfigObject { text: String },
    /// run a processing pass (L1) / deliver the pending batch (L2)
    Pass,
    /// the user deletes (`body` = None) or overwrites the generated file `output` - darklua
    /// is not told, the output location is not watched - and saves `source` again, which
    /// darklua is told about: the pass has to bring the output back
    TamperOutput {
        output: String,
        body: Option<Body>,
        source: String,
    },
    /// from the next pass on the caller passes another generator override in its options
    /// (`Options::with_generator_override`; L1 only: the command line fixes it per session)
    GeneratorOverride { name: Option<String> },
    /// the next pass runs with the fail-fast option (L1 only): it may stop at the first
    /// error, so only `bounded` and confinement are demanded of it; equality with a fresh
    /// run is demanded again at the pass after it
    FailFastNext,
    /// Another program creates (empty) folders inside the output location; darklua is not
    /// told. A fresh run would start with them in place.
    ForeignDir { path: String },
    /// advance simulated time (L2 only), milliseconds
    Wait { ms: u64 },
    /// install fault rules active during the next pass only; right after that pass the
    /// listed paths are reported again (`source_changed`, as the next save would) - the
    /// recovery notification is part of the operation so that shrinking cannot drop it
    Faults {
        rules: Vec<FaultRule>,
        #[serde(default)]
        renotify: Vec<String>,
    },
}

#[derive(Clone, Copy, Debug, PartialEq, Eq, Serialize, Deserialize)]
pub enum Layer {
    L1,
    L2,
    /// the real `darklua process --watch` binary on a real directory, real time
    LW,
}

#[derive(Clone, Debug, PartialEq, Eq, Serialize, Deserialize)]
pub struct C10Scenario {
    pub seed: u64,
    pub layer: Layer,
    pub backend: Backend,
    pub entries: Vec<FsEntry>,
    pub opts: OptSpec,
    pub ops: Vec<Op>,
    /// L1 only: notify additions through `add_source` instead of `collect_work`
    pub use_add_source: bool,
    pub walk_seed: u64,
    pub hash_seed: u64,
}

#[derive(Clone, Debug, Serialize, Deserialize)]
#[serde(tag = "property")]
pub enum Scenario {
    C10(C10Scenario),
    C11(C11Scenario),
}

/// What a replay file holds.
#[derive(Clone, Debug, Serialize, Deserialize)]
pub struct Replay {
    pub scenario: Scenario,
    pub expected: ViolationSig,
    pub message: String,
    pub found_by: String,
}

/// The part of a violation that must be reproduced by a replay and that known findings
/// are matched on.
#[derive(Clone, Debug, PartialEq, Eq, PartialOrd, Ord, Hash, Serialize, Deserialize)]
pub struct ViolationSig {
    pub property: String,
    pub clause: String,
    pub class: String,
}

#[derive(Clone, Debug)]
pub struct Violation {
    pub sig: ViolationSig,
    pub message: String,
}

impl Violation {
    pub fn new(property: &str, clause: &str, class: &str, message: impl Into<String>) -> Self {
        Violation {
            sig: ViolationSig {
                property: property.to_owned(),
                clause: clause.to_owned(),
                class: class.to_owned(),
            },
            message: message.into(),
        }
    }
}
