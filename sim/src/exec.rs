//! Execution of darklua inside the simulator: carrier threads with a chosen `std` hash
//! seed, panic capture, and construction of `Resources` / `Options` from scenario data.

use std::{
    cell::{Cell, RefCell},
    collections::BTreeMap,
    panic::{self, AssertUnwindSafe},
    path::Path,
    sync::Arc,
};

use darklua_core::{Configuration, GeneratorParameters, Options, Resources};

use crate::{
    model::{Backend, ConfigSource, FsEntry, OptSpec},
    rng::splitmix,
    simfs::{SimFs, Snapshot},
};

thread_local! {
    static HASH_SEED: Cell<u64> = const { Cell::new(0) };
    static HASH_SEEDED: Cell<bool> = const { Cell::new(false) };
    static LAST_PANIC: RefCell<Option<String>> = const { RefCell::new(None) };
}

/// Interposed `getrandom`: `std` seeds `RandomState` (hash-map iteration order) through
/// this symbol once per thread. On a carrier thread the bytes come from the scenario's hash
/// seed; on every other thread the real system call is made.
///
/// # Safety
/// `buf` must be valid for `len` bytes (the libc contract).
#[no_mangle]
pub unsafe extern "C" fn getrandom(
    buf: *mut libc::c_void,
    len: libc::size_t,
    flags: libc::c_uint,
) -> libc::ssize_t {
    let seeded = HASH_SEEDED.try_with(|s| s.get()).unwrap_or(false);
    if seeded {
        let mut state = HASH_SEED.with(|s| s.get());
        let out = buf as *mut u8;
        let mut i = 0usize;
        while i < len {
            let v = splitmix(&mut state).to_le_bytes();
            let mut k = 0;
            while k < 8 && i < len {
                *out.add(i) = v[k];
                i += 1;
                k += 1;
            }
        }
        HASH_SEED.with(|s| s.set(state));
        len as libc::ssize_t
    } else {
        libc::syscall(libc::SYS_getrandom, buf, len, flags) as libc::ssize_t
    }
}

pub fn install_panic_hook() {
    panic::set_hook(Box::new(|info| {
        let location = info
            .location()
            .map(|l| format!("{}:{}", l.file(), l.line()))
            .unwrap_or_else(|| "?".to_owned());
        let payload = if let Some(s) = info.payload().downcast_ref::<&str>() {
            (*s).to_owned()
        } else if let Some(s) = info.payload().downcast_ref::<String>() {
            s.clone()
        } else {
            "<non-string panic payload>".to_owned()
        };
        LAST_PANIC.with(|p| {
            *p.borrow_mut() = Some(format!("{} at {}", payload, location));
        });
    }));
}

/// Run `f`, converting a panic into `Err(message at file:line)`.
pub fn catch<T>(f: impl FnOnce() -> T) -> Result<T, String> {
    LAST_PANIC.with(|p| *p.borrow_mut() = None);
    match panic::catch_unwind(AssertUnwindSafe(f)) {
        Ok(v) => Ok(v),
        Err(_) => Err(LAST_PANIC
            .with(|p| p.borrow_mut().take())
            .unwrap_or_else(|| "panic (no message)".to_owned())),
    }
}

/// Run one simulated execution on a fresh carrier thread whose `std` hash seed is
/// `hash_seed`, with a clean set of thread-locals and a large stack. The caller blocks
/// until it finishes, so there is exactly one runnable thread of simulated work.
pub fn on_carrier<T: Send + 'static>(
    hash_seed: u64,
    f: impl FnOnce() -> T + Send + 'static,
) -> Result<T, String> {
    let handle = std::thread::Builder::new()
        .name("carrier".to_owned())
        .stack_size(stack_bytes())
        .spawn(move || {
            HASH_SEED.with(|s| s.set(hash_seed));
            HASH_SEEDED.with(|s| s.set(true));
            let _ = darklua_core::verif_hooks::verif_take_probes();
            catch(f)
        })
        .expect("spawn carrier thread");
    match handle.join() {
        Ok(result) => result,
        Err(_) => Err("carrier thread died".to_owned()),
    }
}

pub enum Store {
    Sim(Arc<SimFs>),
    Mem(Resources),
    /// a scratch directory on the real file system, reached through the real
    /// `Resources::from_file_system()` (the process must stand in it: `enter`)
    Real(crate::tierb::Scratch),
}

/// The working directory is process-wide: executions over the real file system through the
/// library take turns.
pub static CWD_LOCK: std::sync::Mutex<()> = std::sync::Mutex::new(());
static HOME: std::sync::Mutex<Option<std::path::PathBuf>> = std::sync::Mutex::new(None);

/// Back to the scratch directory of the history that holds `CWD_LOCK` (after a reference
/// run entered its own).
pub fn go_home() {
    if let Some(home) = HOME.lock().unwrap_or_else(|e| e.into_inner()).as_ref() {
        let _ = std::env::set_current_dir(home);
    }
}

pub fn set_home(home: Option<std::path::PathBuf>) {
    *HOME.lock().unwrap_or_else(|e| e.into_inner()) = home;
    if HOME.lock().unwrap_or_else(|e| e.into_inner()).is_none() {
        let _ = std::env::set_current_dir("/");
    }
}

impl Store {
    pub fn new(backend: Backend, walk_seed: u64, entries: &[FsEntry]) -> Store {
        match backend {
            Backend::SimFs | Backend::RealFs => {
                let fs = SimFs::new(walk_seed);
                crate::model::populate(&fs, entries);
                Store::Sim(Arc::new(fs))
            }
            Backend::RealLib => {
                let scratch = crate::tierb::Scratch::new().expect("scratch directory");
                crate::tierb::materialize(&scratch.root, entries, walk_seed).expect("materialize");
                Store::Real(scratch)
            }
            Backend::Memory => {
                let resources = Resources::from_memory();
                for entry in entries {
                    if let crate::model::Body::Text(text) = &entry.body {
                        resources.write(&entry.path, text).unwrap();
                    }
                }
                Store::Mem(resources)
            }
        }
    }

    pub fn resources(&self) -> Resources {
        match self {
            Store::Sim(fs) => Resources::from_verif_file_system(fs.clone()),
            Store::Mem(resources) => resources.clone(),
            Store::Real(_) => Resources::from_file_system(),
        }
    }

    /// Make this store the one relative paths resolve in (real file system only).
    pub fn enter(&self) {
        if let Store::Real(scratch) = self {
            let _ = std::env::set_current_dir(&scratch.root);
        }
    }

    pub fn real_root(&self) -> Option<std::path::PathBuf> {
        match self {
            Store::Real(scratch) => Some(scratch.root.clone()),
            _ => None,
        }
    }

    pub fn sim(&self) -> Option<&Arc<SimFs>> {
        match self {
            Store::Sim(fs) => Some(fs),
            Store::Mem(_) | Store::Real(_) => None,
        }
    }

    pub fn user_mkdir(&self, path: &str) {
        match self {
            Store::Sim(fs) => fs.user_mkdir(path),
            Store::Mem(_) => {}
            Store::Real(scratch) => {
                let _ = std::fs::create_dir_all(scratch.root.join(path));
            }
        }
    }

    pub fn user_rename(&self, from: &str, to: &str) {
        match self {
            Store::Sim(fs) => {
                fs.user_rename(from, to);
            }
            Store::Mem(_) => {
                if let Some(bytes) = self.user_read(from) {
                    self.user_remove(from);
                    self.user_write(to, &bytes);
                }
            }
            Store::Real(scratch) => {
                let target = scratch.root.join(to);
                if let Some(parent) = target.parent() {
                    let _ = std::fs::create_dir_all(parent);
                }
                if scratch.root.join(from).exists() {
                    let _ = std::fs::remove_dir_all(&target).or_else(|_| std::fs::remove_file(&target));
                }
                let _ = std::fs::rename(scratch.root.join(from), target);
            }
        }
    }

    /// The whole simulated file system (paths below the simulated cwd are relative to it,
    /// the few outside of it absolute).
    pub fn snapshot(&self) -> Snapshot {
        match self {
            Store::Sim(fs) => {
                let mut all = fs.snapshot_all();
                // the ancestors of the cwd are scaffolding, not content
                all.retain(|p, c| c.is_some() || !crate::simfs::SIM_CWD.starts_with(p.as_str()));
                all.remove(".");
                all
            }
            Store::Mem(resources) => {
                let mut out = Snapshot::new();
                for path in resources.walk("") {
                    let key = path.to_string_lossy().into_owned();
                    if let Ok(content) = resources.get(&path) {
                        out.insert(key, Some(content.into_bytes()));
                    }
                }
                out
            }
            Store::Real(scratch) => crate::tierb::snapshot(&scratch.root),
        }
    }

    pub fn user_write(&self, path: &str, bytes: &[u8]) {
        match self {
            Store::Real(scratch) => {
                let target = scratch.root.join(path);
                if let Some(parent) = target.parent() {
                    let _ = std::fs::create_dir_all(parent);
                }
                let _ = std::fs::write(target, bytes);
            }
            Store::Sim(fs) => fs.user_write(path, bytes),
            Store::Mem(resources) => {
                if let Ok(text) = std::str::from_utf8(bytes) {
                    resources.write(path, text).unwrap();
                }
            }
        }
    }

    pub fn user_remove(&self, path: &str) {
        match self {
            Store::Real(scratch) => {
                let target = scratch.root.join(path);
                let _ = std::fs::remove_dir_all(&target).or_else(|_| std::fs::remove_file(&target));
            }
            Store::Sim(fs) => {
                fs.user_remove(path);
            }
            Store::Mem(resources) => {
                let _ = resources.remove(path);
            }
        }
    }

    pub fn user_read(&self, path: &str) -> Option<Vec<u8>> {
        match self {
            Store::Real(scratch) => std::fs::read(scratch.root.join(path)).ok(),
            Store::Sim(fs) => fs.user_read(path),
            Store::Mem(resources) => resources.get(path).ok().map(String::into_bytes),
        }
    }
}

pub fn parse_generator(name: &str) -> GeneratorParameters {
    match name {
        "dense" => GeneratorParameters::default_dense(),
        "readable" => GeneratorParameters::default_readable(),
        _ => GeneratorParameters::RetainLines,
    }
}

/// Build `darklua_core::Options` the way a library user / the CLI would.
pub fn build_options(opts: &OptSpec) -> Result<Options, String> {
    let mut options = Options::new(Path::new(&opts.input));
    if let Some(output) = &opts.output {
        options = options.with_output(Path::new(output));
    }
    match &opts.config {
        ConfigSource::Object(text) => {
            let mut configuration: Configuration = json5::from_str(text)
                .map_err(|err| format!("configuration object does not parse: {}", err))?;
            if let Some(deps) = &opts.include_deps {
                let rule: Box<dyn darklua_core::rules::Rule> =
                    Box::new(crate::include_rule::VerifInclude::new(deps.clone()));
                configuration = configuration.with_rule(rule);
            }
            options = options.with_configuration(configuration);
        }
        ConfigSource::Default => {}
        ConfigSource::At(path) => {
            options = options.with_configuration_at(Path::new(path));
        }
    }
    if opts.fail_fast {
        options = options.fail_fast();
    }
    if let Some(generator) = &opts.generator_override {
        options = options.with_generator_override(parse_generator(generator));
    }
    Ok(options)
}

#[derive(Clone, Debug, PartialEq, Eq)]
pub enum Outcome {
    /// `process` returned `Ok`; per-item error texts (sorted) and the success count
    Done { errors: Vec<String>, success: usize },
    /// `process` returned `Err`
    BatchErr(String),
    Panic(String),
}

impl Outcome {
    pub fn errors(&self) -> &[String] {
        match self {
            Outcome::Done { errors, .. } => errors,
            _ => &[],
        }
    }
    pub fn brief(&self) -> String {
        match self {
            Outcome::Done { errors, success } => {
                format!("done: {} ok, {} errors {:?}", success, errors.len(), errors)
            }
            Outcome::BatchErr(e) => format!("batch error: {}", e),
            Outcome::Panic(e) => format!("panic: {}", e),
        }
    }
}

pub fn take_probes() -> BTreeMap<&'static str, u64> {
    darklua_core::verif_hooks::verif_take_probes()
}

/// Error texts quote paths the way the invocation spelled them (`in/../../cwd/out/a.lua`,
/// `../cwd/src/a.lua`); the oracles work with paths relative to the simulated working
/// directory, so such prefixes are rewritten to the canonical spelling.
pub fn canon_text(text: &str, opts: &OptSpec) -> String {
    let mut out = text.to_owned();
    for raw in [Some(&opts.input), opts.output.as_ref()].into_iter().flatten() {
        if !raw.contains("..") && !raw.contains("/.") {
            continue;
        }
        let canonical = crate::gen::normalize(raw);
        for spelled in [raw.trim_end_matches('/').to_owned(), crate::gen::lexical_normalize(raw)] {
            if spelled != canonical && !spelled.is_empty() && !canonical.is_empty() {
                out = replace_path(&out, &spelled, &canonical);
            }
        }
    }
    out
}

/// Replace `spelled` by `canonical` where it stands as a whole path or as the leading
/// directories of one (followed by `/` or by something that cannot continue a name).
fn replace_path(text: &str, spelled: &str, canonical: &str) -> String {
    let is_name_char = |c: char| c.is_alphanumeric() || matches!(c, '.' | '_' | '-');
    let mut out = String::with_capacity(text.len());
    let mut rest = text;
    while let Some(pos) = rest.find(spelled) {
        let after = &rest[pos + spelled.len()..];
        let before_ok = !rest[..pos].chars().next_back().map(|c| is_name_char(c) || c == '/').unwrap_or(false);
        let after_ok = !after.chars().next().map(is_name_char).unwrap_or(false);
        out.push_str(&rest[..pos]);
        if before_ok && after_ok {
            out.push_str(canonical);
        } else {
            out.push_str(spelled);
        }
        rest = after;
    }
    out.push_str(rest);
    out
}

/// One fresh `darklua_core::process` call (what `darklua process` does without `--watch`).
pub fn fresh_process(resources: &Resources, opts: &OptSpec) -> Outcome {
    let options = match build_options(opts) {
        Ok(options) => options,
        Err(err) => return Outcome::BatchErr(format!("harness: {}", err)),
    };
    crate::include_rule::reset_loop_guard();
    match catch(|| darklua_core::process(resources, options)) {
        Err(panic) => Outcome::Panic(panic),
        Ok(Err(err)) => Outcome::BatchErr(err.to_string()),
        Ok(Ok(tree)) => {
            let success = tree.success_count();
            let mut errors: Vec<String> = tree
                .collect_errors()
                .iter()
                .map(|e| canon_text(&e.to_string(), opts))
                .collect();
            errors.sort();
            Outcome::Done { errors, success }
        }
    }
}

fn stack_bytes() -> usize {
    static BYTES: std::sync::OnceLock<usize> = std::sync::OnceLock::new();
    *BYTES.get_or_init(|| {
        std::env::var("VERIF_STACK_MB")
            .ok()
            .and_then(|v| v.parse::<usize>().ok())
            .unwrap_or(64)
            * 1024
            * 1024
    })
}

/// Self-check of the hash-order seam: the same hash seed must give the same `HashMap`
/// iteration order on two carriers and another seed must give another order.
pub fn hash_seam_selfcheck() -> Result<(), String> {
    fn order(seed: u64) -> Result<Vec<u32>, String> {
        on_carrier(seed, || {
            let mut set = std::collections::HashSet::new();
            for i in 0..64u32 {
                set.insert(i);
            }
            set.into_iter().collect::<Vec<u32>>()
        })
    }
    let a = order(11)?;
    let b = order(11)?;
    let c = order(12)?;
    if a != b {
        return Err("hash seam: same seed gave different HashSet orders".to_owned());
    }
    if a == c {
        return Err("hash seam: different seeds gave the same HashSet order (getrandom not interposed?)".to_owned());
    }
    Ok(())
}

thread_local! {
    static CAPTURED_ERRORS: RefCell<Vec<(String, String)>> = const { RefCell::new(Vec::new()) };
}

/// A logger that records error-level messages per thread (the watcher reports a failed
/// pass only through `log::error!`).
struct CaptureLogger;

thread_local! {
    /// darklua's logging is verbose (trace level) for the simulated run on this thread
    static TRACE_LOGS: std::cell::Cell<bool> = const { std::cell::Cell::new(false) };
}

/// Let `log_enabled!(Trace)` be true for darklua code running on this thread (some debug
/// aids of darklua only act then); the records themselves are dropped.
pub fn set_trace_logs(on: bool) {
    TRACE_LOGS.with(|t| t.set(on));
}

impl log::Log for CaptureLogger {
    fn enabled(&self, metadata: &log::Metadata) -> bool {
        metadata.level() <= log::Level::Error || TRACE_LOGS.with(|t| t.get())
    }
    fn log(&self, record: &log::Record) {
        if record.level() <= log::Level::Error {
            let entry = (record.target().to_owned(), record.args().to_string());
            let _ = CAPTURED_ERRORS.try_with(|c| c.borrow_mut().push(entry));
        }
    }
    fn flush(&self) {}
}

static CAPTURE_LOGGER: CaptureLogger = CaptureLogger;

pub fn install_capture_logger() {
    let _ = log::set_logger(&CAPTURE_LOGGER);
    // the level filter is process wide; whether anything below `error` is enabled is
    // decided per thread by `TRACE_LOGS`
    log::set_max_level(log::LevelFilter::Trace);
}

pub fn take_captured_errors() -> Vec<(String, String)> {
    CAPTURED_ERRORS.with(|c| std::mem::take(&mut *c.borrow_mut()))
}
