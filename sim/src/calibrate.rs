//! Calibration of the inotify/debouncer stub against the real notify 8.2 +
//! notify-debouncer-full 0.7 stack on a tmpfs scratch directory (real time, outside the
//! deterministic loop; DESIGN.md §4.5). Not a registered check: it records, per operation
//! variant, whether the stub predicts the batches the real stack delivers.

use std::{
    fs,
    path::{Path, PathBuf},
    sync::mpsc,
    time::Duration,
};

use notify::RecursiveMode;
use notify_debouncer_full::{new_debouncer, DebounceEventResult};
use serde_json::json;

use crate::{
    l2::{apply_op, Debounce, SaveStyle, Watches, TICK_MS, TIMEOUT_MS},
    model::{Body, Op},
    simfs::{SimFs, SIM_CWD},
};

#[derive(Clone)]
enum Step {
    Op(Op, SaveStyle),
    /// watch a single file (non-recursive), as darklua does for configuration files and
    /// external dependencies
    Sleep(u64),
}

struct Variant {
    name: &'static str,
    watch_file: Option<&'static str>,
    /// the spelling the recursive watch on the source directory is registered with
    root: &'static str,
    steps: Vec<Step>,
}

fn text(s: &str) -> Body {
    Body::Text(s.to_owned())
}

fn variants() -> Vec<Variant> {
    let edit = |p: &str, s: SaveStyle| Step::Op(Op::Edit { path: p.to_owned(), body: text("return 2\n") }, s);
    let add = |p: &str| Step::Op(Op::Add { path: p.to_owned(), body: text("return 3\n") }, SaveStyle::InPlace);
    let rm = |p: &str| Step::Op(Op::RemoveFile { path: p.to_owned() }, SaveStyle::InPlace);
    let rmdir = |p: &str| Step::Op(Op::RemoveDir { path: p.to_owned() }, SaveStyle::InPlace);
    let mv = |a: &str, b: &str| Step::Op(Op::Rename { from: a.to_owned(), to: b.to_owned() }, SaveStyle::InPlace);
    vec![
        Variant { name: "save_in_place", watch_file: None, root: "src", steps: vec![edit("src/a.lua", SaveStyle::InPlace)] },
        Variant { name: "save_atomic", watch_file: None, root: "src", steps: vec![edit("src/a.lua", SaveStyle::Atomic)] },
        Variant { name: "save_delete_recreate", watch_file: None, root: "src", steps: vec![edit("src/a.lua", SaveStyle::DeleteRecreate)] },
        Variant { name: "create_file", watch_file: None, root: "src", steps: vec![add("src/new.lua")] },
        Variant { name: "create_file_in_nested_existing_dir", watch_file: None, root: "src", steps: vec![add("src/sub/new.lua")] },
        Variant { name: "delete_file", watch_file: None, root: "src", steps: vec![rm("src/a.lua")] },
        Variant { name: "delete_nested_file", watch_file: None, root: "src", steps: vec![rm("src/sub/b.lua")] },
        Variant { name: "rm_r_directory", watch_file: None, root: "src", steps: vec![rmdir("src/sub")] },
        Variant { name: "rename_file", watch_file: None, root: "src", steps: vec![mv("src/a.lua", "src/renamed.lua")] },
        Variant { name: "two_saves_in_one_window", watch_file: None, root: "src", steps: vec![edit("src/a.lua", SaveStyle::InPlace), Step::Sleep(100), edit("src/a.lua", SaveStyle::InPlace)] },
        Variant { name: "save_then_delete_in_one_window", watch_file: None, root: "src", steps: vec![edit("src/a.lua", SaveStyle::InPlace), Step::Sleep(50), rm("src/a.lua")] },
        Variant { name: "create_then_delete_in_one_window", watch_file: None, root: "src", steps: vec![add("src/new.lua"), Step::Sleep(50), rm("src/new.lua")] },
        Variant { name: "delete_then_create_in_one_window", watch_file: None, root: "src", steps: vec![rm("src/a.lua"), Step::Sleep(50), add("src/a.lua")] },
        Variant { name: "save_in_two_windows", watch_file: None, root: "src", steps: vec![edit("src/a.lua", SaveStyle::InPlace), Step::Sleep(700), edit("src/a.lua", SaveStyle::InPlace)] },
        Variant { name: "edit_two_files", watch_file: None, root: "src", steps: vec![edit("src/a.lua", SaveStyle::InPlace), Step::Sleep(20), edit("src/sub/b.lua", SaveStyle::InPlace)] },
        Variant { name: "create_file_in_new_dir", watch_file: None, root: "src", steps: vec![add("src/fresh/dir/new.lua")] },
        Variant { name: "file_watch_save_atomic", watch_file: Some("ext/dep.lua"), root: "src", steps: vec![edit("ext/dep.lua", SaveStyle::Atomic)] },
        Variant { name: "file_watch_delete", watch_file: Some("ext/dep.lua"), root: "src", steps: vec![rm("ext/dep.lua")] },
        Variant { name: "atomic_save_then_delete_in_one_window", watch_file: None, root: "src", steps: vec![edit("src/a.lua", SaveStyle::Atomic), Step::Sleep(50), rm("src/a.lua")] },
        Variant { name: "rename_then_edit_in_one_window", watch_file: None, root: "src", steps: vec![mv("src/a.lua", "src/renamed.lua"), Step::Sleep(50), edit("src/renamed.lua", SaveStyle::InPlace)] },
        Variant { name: "rename_over_existing", watch_file: None, root: "src", steps: vec![mv("src/a.lua", "src/sub/b.lua")] },
        Variant { name: "rm_r_then_recreate_in_one_window", watch_file: None, root: "src", steps: vec![rmdir("src/sub"), Step::Sleep(50), add("src/sub/b.lua")] },
        Variant { name: "file_watch_and_dir_watch_save_atomic", watch_file: Some("src/a.lua"), root: "src", steps: vec![edit("src/a.lua", SaveStyle::Atomic)] },
        Variant { name: "file_watch_and_dir_watch_delete_recreate", watch_file: Some("src/a.lua"), root: "src", steps: vec![edit("src/a.lua", SaveStyle::DeleteRecreate)] },
        Variant { name: "file_watch_and_dir_watch_delete", watch_file: Some("src/a.lua"), root: "src", steps: vec![rm("src/a.lua")] },
        Variant { name: "rename_directory", watch_file: None, root: "src", steps: vec![mv("src/sub", "src/moved")] },
        Variant { name: "rename_directory_then_edit_inside", watch_file: None, root: "src", steps: vec![mv("src/sub", "src/moved"), Step::Sleep(700), edit("src/moved/b.lua", SaveStyle::InPlace)] },
        Variant { name: "move_file_into_other_directory", watch_file: None, root: "src", steps: vec![mv("src/a.lua", "src/sub/deep/a.lua")] },
        Variant { name: "file_watch_registered_through_dotdot", watch_file: Some("src/../ext/dep.lua"), root: "src", steps: vec![edit("ext/dep.lua", SaveStyle::InPlace)] },
        Variant { name: "root_registered_through_dotdot", watch_file: None, root: "src/../src", steps: vec![edit("src/a.lua", SaveStyle::InPlace), Step::Sleep(700), add("src/fresh/new.lua"), Step::Sleep(700), rm("src/sub/b.lua")] },
        Variant { name: "root_registered_with_dot_atomic_save", watch_file: None, root: "./src", steps: vec![edit("src/a.lua", SaveStyle::Atomic), Step::Sleep(700), mv("src/sub", "src/moved")] },
        Variant { name: "move_file_into_new_directory", watch_file: None, root: "src", steps: vec![mv("src/a.lua", "src/newdir/a.lua"), Step::Sleep(700), edit("src/newdir/a.lua", SaveStyle::InPlace)] },
        Variant { name: "rm_r_then_move_file_into_it_again", watch_file: None, root: "src", steps: vec![rmdir("src/sub"), Step::Sleep(700), mv("src/a.lua", "src/sub/moved.lua"), Step::Sleep(700), add("src/sub/b.lua")] },
        Variant { name: "file_watch_save_in_place", watch_file: Some("ext/dep.lua"), root: "src", steps: vec![edit("ext/dep.lua", SaveStyle::InPlace)] },
        Variant { name: "file_watch_and_dir_watch_save_in_place", watch_file: Some("src/a.lua"), root: "src", steps: vec![edit("src/a.lua", SaveStyle::InPlace)] },
    ]
}

const INITIAL: &[(&str, &str)] = &[
    ("src/a.lua", "return 1\n"),
    ("src/sub/b.lua", "return 1\n"),
    ("src/sub/deep/c.lua", "return 1\n"),
    ("ext/dep.lua", "return 1\n"),
];

fn real_apply(root: &Path, op: &Op, style: SaveStyle) {
    match op {
        Op::Edit { path, body } | Op::Add { path, body } => {
            let bytes = body.bytes().unwrap_or_default();
            let p = root.join(path);
            if let Some(parent) = p.parent() {
                let _ = fs::create_dir_all(parent);
            }
            if !p.exists() {
                let _ = fs::write(&p, bytes);
                return;
            }
            match style {
                SaveStyle::InPlace => {
                    let _ = fs::write(&p, bytes);
                }
                SaveStyle::Atomic => {
                    let tmp = root.join(format!("{}.tmp~", path));
                    let _ = fs::write(&tmp, bytes);
                    let _ = fs::rename(&tmp, &p);
                }
                SaveStyle::DeleteRecreate => {
                    let _ = fs::remove_file(&p);
                    let _ = fs::write(&p, bytes);
                }
            }
        }
        Op::RemoveFile { path } => {
            let _ = fs::remove_file(root.join(path));
        }
        Op::RemoveDir { path } => {
            let _ = fs::remove_dir_all(root.join(path));
        }
        Op::Rename { from, to } => {
            if let Some(parent) = root.join(to).parent() {
                let _ = fs::create_dir_all(parent);
            }
            let _ = fs::rename(root.join(from), root.join(to));
        }
        _ => {}
    }
}

type Batch = Vec<(String, Vec<String>)>;

fn real_run(variant: &Variant) -> Result<Vec<Batch>, String> {
    let root = PathBuf::from(format!("/dev/shm/dvsim-calibrate-{}", std::process::id()));
    let _ = fs::remove_dir_all(&root);
    for (path, content) in INITIAL {
        let p = root.join(path);
        fs::create_dir_all(p.parent().unwrap()).map_err(|e| e.to_string())?;
        fs::write(&p, content).map_err(|e| e.to_string())?;
    }
    let (tx, rx) = mpsc::channel::<DebounceEventResult>();
    let mut debouncer = new_debouncer(Duration::from_millis(TIMEOUT_MS), None, tx)
        .map_err(|e| format!("debouncer: {}", e))?;
    debouncer
        .watch(root.join(variant.root), RecursiveMode::Recursive)
        .map_err(|e| format!("watch: {}", e))?;
    if let Some(file) = variant.watch_file {
        debouncer
            .watch(root.join(file), RecursiveMode::Recursive)
            .map_err(|e| format!("watch file: {}", e))?;
    }
    std::thread::sleep(Duration::from_millis(150));
    for step in &variant.steps {
        match step {
            Step::Op(op, style) => real_apply(&root, op, *style),
            Step::Sleep(ms) => std::thread::sleep(Duration::from_millis(*ms)),
        }
    }
    std::thread::sleep(Duration::from_millis(1300));
    let mut batches: Vec<Batch> = Vec::new();
    while let Ok(result) = rx.try_recv() {
        if let Ok(events) = result {
            batches.push(
                events
                    .iter()
                    .map(|e| {
                        (
                            format!("{:?}", e.event.kind),
                            e.event
                                .paths
                                .iter()
                                .map(|p| {
                                    p.strip_prefix(&root)
                                        .unwrap_or(p)
                                        .to_string_lossy()
                                        .into_owned()
                                })
                                .collect(),
                        )
                    })
                    .collect(),
            );
        }
    }
    drop(debouncer);
    let _ = fs::remove_dir_all(&root);
    Ok(batches)
}

fn stub_run(variant: &Variant) -> Vec<Batch> {
    let fs = SimFs::new(0);
    for (path, content) in INITIAL {
        fs.user_write(path, content.as_bytes());
    }
    let mut watches = Watches::default();
    watches.watch_recursive(&fs, variant.root);
    if let Some(file) = variant.watch_file {
        watches.watch_recursive(&fs, file);
    }
    let mut debounce = Debounce::default();
    let mut now: u64 = 150;
    let mut raw: Vec<(u64, crate::l2::RawEvent)> = Vec::new();
    for step in &variant.steps {
        match step {
            Step::Op(op, style) => {
                for e in apply_op(&fs, &mut watches, op, *style) {
                    raw.push((now, e));
                }
            }
            Step::Sleep(ms) => now += ms,
        }
    }
    let end = now + 1300;
    let mut batches = Vec::new();
    let mut tick = TICK_MS;
    let mut i = 0;
    while tick <= end {
        while i < raw.len() && raw[i].0 <= tick {
            debounce.now = raw[i].0;
            let e = raw[i].1.clone();
            debounce.add_event(e, |p| {
                fs.user_exists(&p.strip_prefix(SIM_CWD).unwrap_or(p).to_string_lossy())
            });
            i += 1;
        }
        debounce.now = tick;
        let batch = debounce.debounced_events();
        if !batch.is_empty() {
            batches.push(
                batch
                    .iter()
                    .map(|e| {
                        (
                            format!("{:?}", e.kind),
                            e.paths
                                .iter()
                                .map(|p| {
                                    p.strip_prefix(SIM_CWD)
                                        .unwrap_or(p)
                                        .to_string_lossy()
                                        .into_owned()
                                })
                                .collect(),
                        )
                    })
                    .collect(),
            );
        }
        tick += TICK_MS;
    }
    batches
}

/// What darklua's `process_events` distinguishes: per batch, the ordered list of
/// (event class, paths) with Access events dropped (they are ignored).
fn essential(batches: &[Batch]) -> Vec<Vec<(String, Vec<String>)>> {
    batches
        .iter()
        .map(|b| {
            b.iter()
                .filter(|(k, _)| !k.starts_with("Access"))
                .map(|(k, p)| {
                    let class = if k.starts_with("Create") {
                        "Create"
                    } else if k.starts_with("Remove") {
                        "Remove"
                    } else if k.contains("Name(") {
                        "Rename"
                    } else if k.starts_with("Modify") {
                        "Modify"
                    } else {
                        "Other"
                    };
                    (class.to_owned(), p.clone())
                })
                .collect::<Vec<_>>()
        })
        .filter(|b: &Vec<(String, Vec<String>)>| !b.is_empty())
        .collect()
}

pub fn run(out_path: &Path) -> i32 {
    let mut results = Vec::new();
    let mut failed = 0;
    for variant in variants() {
        let stub = stub_run(&variant);
        let real = match real_run(&variant) {
            Ok(real) => real,
            Err(err) => {
                crate::outln!("{:40} SKIPPED ({})", variant.name, err);
                results.push(json!({"variant": variant.name, "status": "skipped", "reason": err}));
                continue;
            }
        };
        let exact = stub == real;
        // batch boundaries depend on where the real tick falls; what matters to darklua
        // is the flattened sequence and, separately, the per-batch grouping
        let flat = |b: &Vec<Vec<(String, Vec<String>)>>| b.iter().flatten().cloned().collect::<Vec<_>>();
        // a file created inside a directory that was itself just created may or may not be
        // reported (a race between the kernel and notify adding the watch); darklua
        // rescans on any Create, so both outcomes are equivalent for it
        let drop_raced = |seq: Vec<(String, Vec<String>)>| -> Vec<(String, Vec<String>)> {
            let created_dirs: Vec<String> = seq
                .iter()
                .filter(|(k, _)| k == "Create")
                .filter_map(|(_, p)| p.first().cloned())
                .collect();
            let raced = |path: &String| created_dirs.iter().any(|d| path.starts_with(&format!("{}/", d)));
            seq.iter()
                .filter(|(k, p)| !(k == "Create" && p.first().is_some_and(raced)))
                // a file moved into such a directory: the `MOVED_TO` half may be missed
                // (darklua removes the old name and rescans either way)
                .filter(|(k, p)| !(k == "Rename" && p.len() == 1 && raced(&p[0])))
                .map(|(k, p)| {
                    if k == "Rename" && p.len() == 2 && raced(&p[1]) {
                        (k.clone(), vec![p[0].clone()])
                    } else {
                        (k.clone(), p.clone())
                    }
                })
                .collect()
        };
        let ok = essential(&stub) == essential(&real)
            || drop_raced(flat(&essential(&stub))) == drop_raced(flat(&essential(&real)));
        if !ok {
            failed += 1;
        }
        crate::outln!(
            "{:40} {}{}",
            variant.name,
            if ok { "passed" } else { "FAILED" },
            if exact { " (exact)" } else { "" }
        );
        if !ok || std::env::var_os("VERIF_CALIBRATE_VERBOSE").is_some() {
            crate::outln!("    real: {:?}", real);
            crate::outln!("    stub: {:?}", stub);
        }
        results.push(json!({
            "variant": variant.name,
            "status": if ok { "passed" } else { "failed" },
            "exact_match_including_access_events": exact,
            "real": real,
            "stub": stub,
        }));
    }
    let doc = json!({
        "what": "inotify + notify-debouncer-full stub vs the real notify 8.2.0 / notify-debouncer-full 0.7.0 stack on tmpfs (/dev/shm), 400 ms timeout",
        "variants": results,
        "failed": failed,
    });
    let _ = fs::write(out_path, serde_json::to_string_pretty(&doc).unwrap());
    crate::outln!("calibration: {} variant(s) failed; written to {}", failed, out_path.display());
    if failed == 0 {
        0
    } else {
        1
    }
}
