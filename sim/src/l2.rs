//! C10 layer L2: the real `FileWatcher` (hook H2) behind a stub of inotify +
//! notify-debouncer-full driven by a discrete-event clock (DESIGN.md §4.5).
//!
//! * `Debounce` is a port of `DebounceDataInner::{add_event, push_event, push_remove_event,
//!   handle_rename_from/to, push_rename_event, debounced_events, sort_events}` from
//!   notify-debouncer-full 0.7.0 with `now()` reading the simulated clock, the Linux
//!   `NoCache` file-id cache, a 100 ms tick and a 400 ms timeout.
//! * `raw_events` translates a user operation into the events notify 8.2's inotify back end
//!   emits for it, for paths covered by a watch.
//! * The oracle is the one of L1 (fresh run), evaluated when the debouncer has drained.

use std::{
    collections::{BTreeMap, BTreeSet, VecDeque},
    path::{Path, PathBuf},
    sync::Arc,
    time::{Duration, Instant},
};

use notify::{
    event::{
        AccessKind, AccessMode, CreateKind, DataChange, MetadataKind, ModifyKind, RemoveKind,
        RenameMode,
    },
    Event, EventKind,
};
use notify_debouncer_full::DebouncedEvent;

use crate::{
    c10::{op_kind, Oracle, RunStats},
    cli::utils::FileWatcher,
    exec::{self, Outcome, Store},
    gen,
    model::{Body, C10Scenario, ConfigSource, Op, Violation},
    simfs::{SimFs, SIM_CWD},
};

const P: &str = "C10";
pub const TIMEOUT_MS: u64 = 400;
pub const TICK_MS: u64 = 100;

// ------------------------------------------------------------------ debouncer port

#[derive(Clone, Debug, PartialEq, Eq)]
pub struct DEvent {
    pub kind: EventKind,
    pub paths: Vec<PathBuf>,
    pub tracker: Option<usize>,
    pub info: Option<String>,
    pub time: u64,
}

#[derive(Clone, Debug, Default)]
struct Queue {
    events: VecDeque<DEvent>,
}

impl Queue {
    fn was_created(&self) -> bool {
        self.events.front().is_some_and(|event| {
            matches!(
                event.kind,
                EventKind::Create(_) | EventKind::Modify(ModifyKind::Name(RenameMode::To))
            )
        })
    }
    fn was_removed(&self) -> bool {
        self.events.front().is_some_and(|event| {
            matches!(
                event.kind,
                EventKind::Remove(_) | EventKind::Modify(ModifyKind::Name(RenameMode::From))
            )
        })
    }
}

#[derive(Clone, Debug, Default)]
pub struct Debounce {
    queues: BTreeMap<PathBuf, Queue>,
    rename_event: Option<DEvent>,
    pub now: u64,
    /// events that arrived during the current millisecond (their `Instant`s differ in the
    /// real debouncer: arrival order breaks the tie)
    arrivals: (u64, u64),
}

/// Event times are kept in 1/1024 ms so that events of one millisecond stay ordered.
const SUB: u64 = 1024;

#[derive(Clone, Debug)]
pub struct RawEvent {
    pub kind: EventKind,
    pub paths: Vec<PathBuf>,
    pub tracker: Option<usize>,
}

impl Debounce {
    pub fn is_empty(&self) -> bool {
        self.queues.is_empty()
    }

    pub fn has_exact_queue(&self, path: &Path) -> bool {
        self.queues.contains_key(path)
    }

    /// Is any event pending for `path` or something below it?
    pub fn has_queue_under(&self, path: &Path) -> bool {
        self.queues.keys().any(|p| p.starts_with(path))
    }

    pub fn debounced_events(&mut self) -> Vec<DEvent> {
        let now = self.now;
        let mut events_expired: Vec<DEvent> = Vec::new();
        let mut queues_remaining = BTreeMap::new();
        let queues = std::mem::take(&mut self.queues);
        for (path, mut queue) in queues {
            let mut kind_index: Vec<(EventKind, usize)> = Vec::new();
            while let Some(event) = queue.events.pop_front() {
                if let Some(pos) = kind_index.iter().position(|(k, _)| *k == event.kind) {
                    let idx = kind_index[pos].1;
                    events_expired.remove(idx);
                    for entry in kind_index.iter_mut() {
                        if entry.1 > idx {
                            entry.1 -= 1;
                        }
                    }
                }
                if now.saturating_sub(event.time / SUB) >= TIMEOUT_MS {
                    let len = events_expired.len();
                    if let Some(pos) = kind_index.iter().position(|(k, _)| *k == event.kind) {
                        kind_index[pos].1 = len;
                    } else {
                        kind_index.push((event.kind, len));
                    }
                    events_expired.push(event);
                } else {
                    queue.events.push_front(event);
                    break;
                }
            }
            if !queue.events.is_empty() {
                queues_remaining.insert(path, queue);
            }
        }
        self.queues = queues_remaining;
        sort_events(events_expired)
    }

    /// The time stamp of the next arriving event.
    fn stamp(&mut self) -> u64 {
        if self.arrivals.0 != self.now {
            self.arrivals = (self.now, 0);
        }
        let sub = self.arrivals.1.min(SUB - 1);
        self.arrivals.1 += 1;
        self.now * SUB + sub
    }

    pub fn add_event(&mut self, event: RawEvent, target_exists: impl Fn(&Path) -> bool) {
        let path = match event.paths.first() {
            Some(path) => path.clone(),
            None => return,
        };
        let now = self.stamp();
        let devent = |e: &RawEvent, time: u64| DEvent {
            kind: e.kind,
            paths: e.paths.clone(),
            tracker: e.tracker,
            info: None,
            time,
        };
        match &event.kind {
            EventKind::Create(_) => self.push_event(devent(&event, now)),
            EventKind::Modify(ModifyKind::Name(rename_mode)) => match rename_mode {
                RenameMode::Any => {
                    if target_exists(&path) {
                        self.handle_rename_to(devent(&event, now));
                    } else {
                        self.handle_rename_from(devent(&event, now));
                    }
                }
                RenameMode::To => self.handle_rename_to(devent(&event, now)),
                RenameMode::From => self.handle_rename_from(devent(&event, now)),
                RenameMode::Both | RenameMode::Other => {}
            },
            EventKind::Remove(_) => self.push_remove_event(devent(&event, now)),
            EventKind::Other => {}
            _ => self.push_event(devent(&event, now)),
        }
    }

    fn handle_rename_from(&mut self, event: DEvent) {
        self.rename_event = Some(event.clone());
        self.push_event(event);
    }

    fn handle_rename_to(&mut self, event: DEvent) {
        let trackers_match = self
            .rename_event
            .as_ref()
            .and_then(|e| e.tracker)
            .and_then(|from_tracker| event.tracker.map(|to_tracker| from_tracker == to_tracker))
            .unwrap_or_default();
        if trackers_match {
            let mut rename_event = self.rename_event.take().unwrap();
            let path = rename_event.paths.remove(0);
            let time = rename_event.time;
            self.push_rename_event(path, event, time);
        } else {
            let mut e = event;
            e.time = self.stamp();
            self.push_event(e);
        }
        self.rename_event = None;
    }

    fn push_rename_event(&mut self, path: PathBuf, event: DEvent, time: u64) {
        let mut source_queue = self.queues.remove(&path).unwrap_or_default();
        // remove rename `from` event
        source_queue.events.pop_back();
        // remove existing rename event
        let found = source_queue.events.iter().enumerate().find_map(|(index, e)| {
            if matches!(e.kind, EventKind::Modify(ModifyKind::Name(RenameMode::Both))) {
                Some((Some(index), e.paths[0].clone(), e.time))
            } else {
                None
            }
        });
        let (remove_index, original_path, original_time) = found.unwrap_or((None, path, time));
        if let Some(remove_index) = remove_index {
            source_queue.events.remove(remove_index);
        }
        // split off remove or move out event and add it back to the events map
        if source_queue.was_removed() {
            let e = source_queue.events.pop_front().unwrap();
            self.queues.insert(
                e.paths[0].clone(),
                Queue {
                    events: [e].into(),
                },
            );
        }
        // update paths
        for e in source_queue.events.iter_mut() {
            e.paths = vec![event.paths[0].clone()];
        }
        // insert rename event at the front, unless the file was just created
        if !source_queue.was_created() {
            source_queue.events.push_front(DEvent {
                kind: EventKind::Modify(ModifyKind::Name(RenameMode::Both)),
                paths: vec![original_path, event.paths[0].clone()],
                tracker: event.tracker,
                info: None,
                time: original_time,
            });
        }
        if let Some(target_queue) = self.queues.get_mut(&event.paths[0]) {
            if !target_queue.was_created() {
                let mut remove_event = DEvent {
                    kind: EventKind::Remove(RemoveKind::Any),
                    paths: vec![event.paths[0].clone()],
                    tracker: None,
                    info: None,
                    time: original_time,
                };
                if !target_queue.was_removed() {
                    remove_event.info = Some("override".to_owned());
                }
                source_queue.events.push_front(remove_event);
            }
            *target_queue = source_queue;
        } else {
            self.queues.insert(event.paths[0].clone(), source_queue);
        }
    }

    fn push_remove_event(&mut self, event: DEvent) {
        let path = event.paths[0].clone();
        // remove child queues
        self.queues.retain(|p, _| !p.starts_with(&path) || *p == path);
        match self.queues.get_mut(&path) {
            Some(queue) if queue.was_created() => {
                self.queues.remove(&path);
            }
            Some(queue) => {
                queue.events = [event].into();
            }
            None => self.push_event(event),
        }
    }

    fn push_event(&mut self, event: DEvent) {
        let path = event.paths[0].clone();
        if let Some(queue) = self.queues.get_mut(&path) {
            let keep = match event.kind {
                EventKind::Modify(
                    ModifyKind::Any
                    | ModifyKind::Data(_)
                    | ModifyKind::Metadata(_)
                    | ModifyKind::Other,
                )
                | EventKind::Create(_) => !queue.was_created(),
                _ => true,
            };
            if keep {
                queue.events.push_back(event);
            }
        } else {
            self.queues.insert(
                path,
                Queue {
                    events: [event].into(),
                },
            );
        }
    }
}

fn sort_events(events: Vec<DEvent>) -> Vec<DEvent> {
    let mut sorted = Vec::with_capacity(events.len());
    let mut events_by_path: BTreeMap<PathBuf, VecDeque<DEvent>> = BTreeMap::new();
    for event in events {
        events_by_path
            .entry(event.paths.last().cloned().unwrap_or_default())
            .or_default()
            .push_back(event);
    }
    // min-heap on (time, path)
    let mut heap: BTreeSet<(u64, PathBuf)> = events_by_path
        .iter()
        .map(|(path, events)| (events[0].time, path.clone()))
        .collect();
    while let Some((min_time, path)) = heap.pop_first() {
        let events = events_by_path.get_mut(&path).unwrap();
        let mut push_next = false;
        while events.front().is_some_and(|event| event.time <= min_time) {
            sorted.push(events.pop_front().unwrap());
            push_next = true;
        }
        if push_next {
            if let Some(event) = events.front() {
                heap.insert((event.time, path));
            }
        }
    }
    sorted
}

// ------------------------------------------------------------------ inotify translation

/// The path notify reports for a path relative to the cwd: the cwd joined with the path
/// as it was registered, `..` components included (calibrated:
/// `file_watch_registered_through_dotdot`).
fn abs(rel: &str) -> PathBuf {
    Path::new(SIM_CWD).join(rel)
}

fn ev(kind: EventKind, rel: &str) -> RawEvent {
    RawEvent {
        kind,
        paths: vec![abs(rel)],
        tracker: None,
    }
}

fn modify(rel: &str) -> RawEvent {
    ev(EventKind::Modify(ModifyKind::Data(DataChange::Any)), rel)
}

fn open(rel: &str) -> RawEvent {
    ev(EventKind::Access(AccessKind::Open(AccessMode::Any)), rel)
}

fn close_write(rel: &str) -> RawEvent {
    ev(EventKind::Access(AccessKind::Close(AccessMode::Write)), rel)
}

/// How a file save reaches the disk.
#[derive(Clone, Copy, Debug, PartialEq, Eq, Hash, PartialOrd, Ord)]
pub enum SaveStyle {
    InPlace,
    /// write a temporary sibling, then rename it over the target
    Atomic,
    /// unlink, then create again
    DeleteRecreate,
}

#[derive(Debug, Default)]
pub struct Watches {
    /// watched directories (relative paths)
    pub dirs: BTreeSet<String>,
    /// single-file (inode) watches: normalized path -> the spelling it was registered
    /// with, which is the one its events carry
    pub files: BTreeMap<String, String>,
    /// recursive watches: normalized root -> the spelling it was registered with
    pub roots: BTreeMap<String, String>,
    next_cookie: usize,
}

impl Watches {
    fn dir_watched(&self, rel: &str) -> bool {
        self.dirs.contains(gen::parent(rel)) || (gen::parent(rel).is_empty() && self.dirs.contains("."))
    }

    pub fn watch_recursive(&mut self, fs: &SimFs, raw: &str) {
        let rel = gen::normalize(raw);
        if fs.user_is_dir(&rel) {
            self.roots.insert(rel.clone(), raw.trim_end_matches('/').to_owned());
            self.dirs.insert(rel.clone());
            for (p, c) in fs.snapshot(&rel) {
                if c.is_none() {
                    self.dirs.insert(p);
                }
            }
        } else if fs.user_exists(&rel) {
            self.files.insert(rel, raw.to_owned());
        }
    }

    pub fn watch_file(&mut self, fs: &SimFs, raw: &str) {
        let rel = gen::normalize(raw);
        if fs.user_exists(&rel) && !fs.user_is_dir(&rel) {
            self.files.insert(rel, raw.to_owned());
        }
    }

    /// the spelling the events of a directory watch carry for `rel`: the root as it was
    /// registered, followed by the path below it
    fn spell(&self, rel: &str) -> String {
        let mut best: Option<(&String, &String)> = None;
        for (norm, raw) in &self.roots {
            let covers = norm == "." || norm.is_empty() || rel == norm || rel.starts_with(&format!("{}/", norm));
            if covers && best.map(|(b, _)| b.len() < norm.len()).unwrap_or(true) {
                best = Some((norm, raw));
            }
        }
        match best {
            Some((norm, raw)) if norm == "." || norm.is_empty() => format!("{}/{}", raw, rel),
            Some((norm, raw)) => format!("{}{}", raw, &rel[norm.len()..]),
            None => rel.to_owned(),
        }
    }

    /// every absolute path events about `rel` may carry
    pub fn event_paths(&self, rel: &str) -> Vec<PathBuf> {
        let mut out = vec![abs(&self.spell(rel))];
        if let Some(raw) = self.files.get(rel) {
            out.push(abs(raw));
        }
        out
    }

    /// the spelling the events of the inode watch on `rel` carry
    fn file_watch(&self, rel: &str) -> Option<String> {
        self.files.get(rel).cloned()
    }

    pub fn unwatch(&mut self, rel: &str) {
        let rel = gen::normalize(rel);
        self.files.remove(&rel);
        self.roots.remove(&rel);
        let prefix = format!("{}/", rel);
        self.dirs.retain(|d| *d != rel && !d.starts_with(&prefix));
    }

    fn cookie(&mut self) -> usize {
        self.next_cookie += 1;
        self.next_cookie
    }
}

/// `mkdir -p` of the missing parents of `path`, immediately followed by whatever the
/// operation puts there: inotify reports the topmost new directory; notify adds watches
/// for it and everything inside afterwards, so what is created or moved inside in the
/// meantime is not reported (calibrated). Returns whether that race applies.
fn make_parent_dirs(fs: &SimFs, watches: &mut Watches, path: &str, out: &mut Vec<RawEvent>) -> bool {
    let mut missing_dirs: Vec<String> = Vec::new();
    let mut p = gen::parent(path).to_owned();
    while !p.is_empty() && !fs.user_exists(&p) {
        missing_dirs.push(p.clone());
        p = gen::parent(&p).to_owned();
    }
    missing_dirs.reverse();
    let mut raced = false;
    for (i, d) in missing_dirs.iter().enumerate() {
        fs.user_mkdir(d);
        if i == 0 && watches.dir_watched(d) {
            out.push(ev(EventKind::Create(CreateKind::Folder), &watches.spell(d)));
            raced = true;
        }
    }
    if raced {
        for d in &missing_dirs {
            watches.dirs.insert(d.clone());
        }
    }
    raced
}

/// Raw notify events for one user operation, given the watches in force, and the change
/// applied to the simulated file system.
pub fn apply_op(
    fs: &SimFs,
    watches: &mut Watches,
    op: &Op,
    style: SaveStyle,
) -> Vec<RawEvent> {
    let mut out: Vec<RawEvent> = Vec::new();
    match op {
        Op::Edit { path, body } | Op::Add { path, body } => {
            let bytes = body.bytes().unwrap_or_default();
            let existed = fs.user_exists(path);
            let raced = make_parent_dirs(fs, watches, path, &mut out);
            let dir_watched = watches.dir_watched(path) && !raced;
            let file_watch = watches.file_watch(path);
            if !existed {
                fs.user_write(path, &bytes);
                if dir_watched {
                    out.push(ev(EventKind::Create(CreateKind::File), &watches.spell(path)));
                    out.push(open(&watches.spell(path)));
                    out.push(modify(&watches.spell(path)));
                    out.push(close_write(&watches.spell(path)));
                }
            } else {
                match style {
                    SaveStyle::InPlace => {
                        fs.user_write(path, &bytes);
                        if dir_watched {
                            out.push(open(&watches.spell(path)));
                            out.push(modify(&watches.spell(path)));
                            out.push(close_write(&watches.spell(path)));
                        }
                        if let Some(raw) = &file_watch {
                            out.push(open(raw));
                            out.push(modify(raw));
                            out.push(close_write(raw));
                        }
                    }
                    SaveStyle::Atomic => {
                        let tmp = format!("{}.tmp~", path);
                        fs.user_write(&tmp, &bytes);
                        fs.user_rename(&tmp, path);
                        if dir_watched {
                            let cookie = watches.cookie();
                            out.push(ev(EventKind::Create(CreateKind::File), &watches.spell(&tmp)));
                            out.push(open(&watches.spell(&tmp)));
                            out.push(modify(&watches.spell(&tmp)));
                            out.push(close_write(&watches.spell(&tmp)));
                            out.push(RawEvent {
                                kind: EventKind::Modify(ModifyKind::Name(RenameMode::From)),
                                paths: vec![abs(&watches.spell(&tmp))],
                                tracker: Some(cookie),
                            });
                            out.push(RawEvent {
                                kind: EventKind::Modify(ModifyKind::Name(RenameMode::To)),
                                paths: vec![abs(&watches.spell(path))],
                                tracker: Some(cookie),
                            });
                            out.push(RawEvent {
                                kind: EventKind::Modify(ModifyKind::Name(RenameMode::Both)),
                                paths: vec![abs(&watches.spell(&tmp)), abs(&watches.spell(path))],
                                tracker: Some(cookie),
                            });
                        }
                        if let Some(raw) = &file_watch {
                            // the old inode is gone: its watch reports that and dies
                            out.push(ev(EventKind::Modify(ModifyKind::Metadata(MetadataKind::Any)), raw));
                            out.push(ev(EventKind::Remove(RemoveKind::File), raw));
                            watches.files.remove(path);
                        }
                    }
                    SaveStyle::DeleteRecreate => {
                        fs.user_remove(path);
                        fs.user_write(path, &bytes);
                        if let Some(raw) = &file_watch {
                            out.push(ev(EventKind::Modify(ModifyKind::Metadata(MetadataKind::Any)), raw));
                            out.push(ev(EventKind::Remove(RemoveKind::File), raw));
                            watches.files.remove(path);
                        }
                        if dir_watched {
                            out.push(ev(EventKind::Remove(RemoveKind::File), &watches.spell(path)));
                            out.push(ev(EventKind::Create(CreateKind::File), &watches.spell(path)));
                            out.push(open(&watches.spell(path)));
                            out.push(modify(&watches.spell(path)));
                            out.push(close_write(&watches.spell(path)));
                        }
                    }
                }
            }
        }
        Op::Touch { path } => {
            if let Some(bytes) = fs.user_read(path) {
                fs.user_write(path, &bytes);
                if watches.dir_watched(path) {
                    out.push(open(&watches.spell(path)));
                    out.push(modify(&watches.spell(path)));
                    out.push(close_write(&watches.spell(path)));
                }
                if let Some(raw) = watches.file_watch(path) {
                    out.push(open(&raw));
                    out.push(modify(&raw));
                    out.push(close_write(&raw));
                }
            }
        }
        Op::RemoveFile { path } => {
            if fs.user_exists(path) && !fs.user_is_dir(path) {
                fs.user_remove(path);
                if let Some(raw) = watches.file_watch(path) {
                    out.push(ev(EventKind::Modify(ModifyKind::Metadata(MetadataKind::Any)), &raw));
                    out.push(ev(EventKind::Remove(RemoveKind::File), &raw));
                    watches.files.remove(path);
                }
                if watches.dir_watched(path) {
                    out.push(ev(EventKind::Remove(RemoveKind::File), &watches.spell(path)));
                }
            }
        }
        Op::RemoveDir { path } => {
            if fs.user_is_dir(path) {
                remove_dir_events(fs, watches, path, &mut out);
                fs.user_remove(path);
            }
        }
        Op::Rename { from, to } if fs.user_is_dir(from) => {
            // a directory moves inside the watched tree: one rename pair from the parents'
            // watches; notify re-registers the watches of the moved tree under the new name
            let from_watched = watches.dir_watched(from);
            let raced = make_parent_dirs(fs, watches, to, &mut out);
            let to_watched = watches.dir_watched(to) && !raced;
            fs.user_rename(from, to);
            let cookie = watches.cookie();
            let prefix = format!("{}/", from);
            let moved: Vec<String> = watches
                .dirs
                .iter()
                .filter(|d| **d == *from || d.starts_with(&prefix))
                .cloned()
                .collect();
            for d in &moved {
                watches.dirs.remove(d);
            }
            if from_watched {
                out.push(RawEvent {
                    kind: EventKind::Modify(ModifyKind::Name(RenameMode::From)),
                    paths: vec![abs(&watches.spell(from))],
                    tracker: Some(cookie),
                });
            }
            if to_watched {
                out.push(RawEvent {
                    kind: EventKind::Modify(ModifyKind::Name(RenameMode::To)),
                    paths: vec![abs(&watches.spell(to))],
                    tracker: Some(cookie),
                });
                if from_watched {
                    out.push(RawEvent {
                        kind: EventKind::Modify(ModifyKind::Name(RenameMode::Both)),
                        paths: vec![abs(&watches.spell(from)), abs(&watches.spell(to))],
                        tracker: Some(cookie),
                    });
                }
                for d in &moved {
                    watches.dirs.insert(format!("{}{}", to, &d[from.len()..]));
                }
            }
            // inode watches on files inside keep working under the old name in the real
            // stack; such files are not renamed by the generator (externals live elsewhere)
        }
        Op::Rename { from, to } => {
            if fs.user_exists(from) && !fs.user_is_dir(from) {
                let from_watched = watches.dir_watched(from);
                let raced = make_parent_dirs(fs, watches, to, &mut out);
                let to_watched = watches.dir_watched(to) && !raced;
                fs.user_rename(from, to);
                let cookie = watches.cookie();
                if from_watched {
                    out.push(RawEvent {
                        kind: EventKind::Modify(ModifyKind::Name(RenameMode::From)),
                        paths: vec![abs(&watches.spell(from))],
                        tracker: Some(cookie),
                    });
                }
                if to_watched {
                    out.push(RawEvent {
                        kind: EventKind::Modify(ModifyKind::Name(RenameMode::To)),
                        paths: vec![abs(&watches.spell(to))],
                        tracker: Some(cookie),
                    });
                    if from_watched {
                        out.push(RawEvent {
                            kind: EventKind::Modify(ModifyKind::Name(RenameMode::Both)),
                            paths: vec![abs(&watches.spell(from)), abs(&watches.spell(to))],
                            tracker: Some(cookie),
                        });
                    }
                }
            }
        }
        _ => {}
    }
    out
}

/// `rm -r`: depth first; every directory reports the removal of its children, then its
/// own removal twice (DELETE_SELF on its own watch, DELETE|ISDIR on its parent's).
fn remove_dir_events(fs: &SimFs, watches: &mut Watches, dir: &str, out: &mut Vec<RawEvent>) {
    let children: Vec<(String, bool)> = fs
        .snapshot(dir)
        .into_iter()
        .filter(|(p, _)| gen::parent(p) == dir)
        .map(|(p, c)| (p, c.is_none()))
        .collect();
    let self_watched = watches.dirs.contains(dir);
    for (child, is_dir) in children {
        if is_dir {
            remove_dir_events(fs, watches, &child, out);
        } else {
            if let Some(raw) = watches.file_watch(&child) {
                out.push(ev(EventKind::Modify(ModifyKind::Metadata(MetadataKind::Any)), &raw));
                out.push(ev(EventKind::Remove(RemoveKind::File), &raw));
                watches.files.remove(&child);
            }
            if self_watched {
                out.push(ev(EventKind::Remove(RemoveKind::File), &watches.spell(&child)));
            }
        }
    }
    if self_watched {
        out.push(ev(EventKind::Remove(RemoveKind::Folder), &watches.spell(dir)));
        watches.dirs.remove(dir);
    }
    if watches.dir_watched(dir) {
        out.push(ev(EventKind::Remove(RemoveKind::Folder), &watches.spell(dir)));
    }
}

// ------------------------------------------------------------------ driver

fn to_debounced(events: &[DEvent], base: Instant) -> Vec<DebouncedEvent> {
    events
        .iter()
        .map(|e| {
            let mut event = Event::new(e.kind);
            for p in &e.paths {
                event = event.add_path(p.clone());
            }
            if let Some(t) = e.tracker {
                event = event.set_tracker(t);
            }
            if let Some(info) = &e.info {
                event = event.set_info(info);
            }
            DebouncedEvent::new(event, base + Duration::from_micros(e.time * 1000 / SUB))
        })
        .collect()
}

fn process_options(scn: &C10Scenario) -> Result<crate::cli::process::Options, String> {
    use clap::Parser;
    #[derive(Parser)]
    struct Wrapper {
        #[command(flatten)]
        options: crate::cli::process::Options,
    }
    let mut args: Vec<String> = vec![
        "darklua-process".to_owned(),
        scn.opts.input.clone(),
        scn.opts.output.clone().unwrap_or_else(|| scn.opts.input.clone()),
    ];
    match &scn.opts.config {
        ConfigSource::At(path) => {
            args.push("--config".to_owned());
            args.push(path.clone());
        }
        ConfigSource::Default => {}
        ConfigSource::Object(_) => return Err("L2 needs a configuration file".to_owned()),
    }
    if let Some(format) = &scn.opts.generator_override {
        args.push("--format".to_owned());
        args.push(format.clone());
    }
    args.push("--watch".to_owned());
    Wrapper::try_parse_from(args)
        .map(|w| w.options)
        .map_err(|e| format!("clap: {}", e))
}

fn watcher_outcome(watcher: &FileWatcher, opts: &crate::model::OptSpec) -> Outcome {
    match watcher.verif_worker_tree() {
        None => Outcome::BatchErr("no worker tree (the first run failed as a whole)".to_owned()),
        Some(tree) => {
            let success = tree.success_count();
            let mut errors: Vec<String> = tree
                .collect_errors()
                .iter()
                .map(|e| exec::canon_text(&e.to_string(), opts))
                .collect();
            errors.sort();
            Outcome::Done { errors, success }
        }
    }
}

fn strip_cwd(path: &Path) -> String {
    path.strip_prefix(SIM_CWD)
        .unwrap_or(path)
        .to_string_lossy()
        .into_owned()
}

/// Scenario seeds with this bit set force one save style for every save of the history
/// (bits 60..61: 0 in place, 1 atomic, 2 delete-and-recreate): the exhaustive L2 stratum.
pub const FORCED_STYLE_BIT: u64 = 1 << 62;

pub fn forced_style_seed(base: u64, style: u64) -> u64 {
    FORCED_STYLE_BIT | ((style & 3) << 60) | (base & ((1 << 60) - 1))
}

pub fn style_for(seed: u64, op_index: usize) -> SaveStyle {
    if seed & FORCED_STYLE_BIT != 0 {
        return match (seed >> 60) & 3 {
            1 => SaveStyle::Atomic,
            2 => SaveStyle::DeleteRecreate,
            _ => SaveStyle::InPlace,
        };
    }
    match crate::rng::mix(seed, op_index as u64) % 4 {
        0 => SaveStyle::Atomic,
        1 => SaveStyle::DeleteRecreate,
        _ => SaveStyle::InPlace,
    }
}

pub fn run_l2(scn: &C10Scenario, stats: &mut RunStats) -> Vec<Violation> {
    let mut violations: Vec<Violation> = Vec::new();
    let store = Store::new(scn.backend, scn.walk_seed, &scn.entries);
    let fs: Arc<SimFs> = match store.sim() {
        Some(fs) => fs.clone(),
        None => return violations,
    };
    let options = match process_options(scn) {
        Ok(options) => options,
        Err(err) => {
            violations.push(Violation::new(P, "harness", "options", err));
            return violations;
        }
    };
    let region = crate::c10::output_dir(&scn.opts);
    let mut oracle = Oracle::new(scn.backend, &store, &region);
    let mut watcher = FileWatcher::verif_new(
        &options,
        store.resources(),
        Some(PathBuf::from(SIM_CWD)),
    );
    let mut watches = Watches::default();
    let mut debounce = Debounce::default();
    let base = Instant::now();
    let file_count = scn.entries.len() + scn.ops.len();
    let budget = 600 + 64 * (file_count as u64 + 2) * 16;
    let mut pass_index = 0usize;
    let mut started = false;
    let mut signature = 0u64;
    let mut next_tick: u64 = TICK_MS;
    let mut pending_fault_pass = false;
    let mut pending_renotify: Vec<String> = Vec::new();
    // message of the batch-level error of the most recent pass, if it failed as a whole
    let mut last_batch_error: Option<String> = None;

    // the configuration is always read from a file in L2
    let config_paths: Vec<String> = match &scn.opts.config {
        ConfigSource::At(path) => vec![path.clone()],
        _ => vec![".darklua.json".to_owned(), ".darklua.json5".to_owned()],
    };

    // deliver every batch due up to (and including) time `until`
    macro_rules! advance {
        ($until:expr, $compare_last:expr) => {{
            let until: u64 = $until;
            let mut delivered_any = false;
            while next_tick <= until {
                debounce.now = next_tick;
                next_tick += TICK_MS;
                let batch = debounce.debounced_events();
                if batch.is_empty() {
                    continue;
                }
                delivered_any = true;
                let log_start = fs.log_len();
                fs.set_budget(budget);
                let events = to_debounced(&batch, base);
                if std::env::var_os("VERIF_TRACE").is_some() {
                    crate::outln!(
                        "[t={}] batch {:?}\n  watches dirs={:?} files={:?}",
                        debounce.now,
                        batch
                            .iter()
                            .map(|e| format!("{:?} {:?}", e.kind, e.paths.iter().map(|p| strip_cwd(p)).collect::<Vec<_>>()))
                            .collect::<Vec<_>>(),
                        watches.dirs,
                        watches.files
                    );
                }
                let _ = exec::take_captured_errors();
                crate::include_rule::reset_loop_guard();
                let result = exec::catch(|| watcher.verif_batch(events));
                last_batch_error = exec::take_captured_errors()
                    .into_iter()
                    .find(|(target, message)| {
                        target.contains("file_watcher")
                            || !message.starts_with("an error happened while processing")
                    })
                    .map(|(_, message)| message);
                fs.set_budget(u64::MAX / 2);
                let pass_log = fs.log_since(log_start);
                for rec in &pass_log {
                    if let Some(kind) = rec.fault {
                        *stats.faults_fired.entry(format!("{:?}", kind)).or_insert(0) += 1;
                    }
                }
                fs.set_faults(Vec::new());
                signature = crate::rng::mix(signature, crate::c11::io_signature(&pass_log));
                oracle.note_log(&pass_log);
                stats.passes += 1;
                stats.executions += 1;
                *stats.ops.entry("Batch".to_owned()).or_insert(0) += 1;
                for signal in watcher.verif_drain_signals() {
                    match signal {
                        crate::cli::utils::VerifWatchSignal::Watch(p) => {
                            watches.watch_recursive(&fs, &strip_cwd(&p))
                        }
                        crate::cli::utils::VerifWatchSignal::Unwatch(p) => {
                            watches.unwatch(&strip_cwd(&p))
                        }
                        crate::cli::utils::VerifWatchSignal::Exit => {}
                    }
                }
                if let Err(msg) = result {
                    violations.push(Violation::new(
                        P,
                        "bounded",
                        &format!("panic@{}", msg.rsplit(" at ").next().unwrap_or("?")),
                        format!(
                            "the watcher panicked on batch {:?}: {}",
                            batch
                                .iter()
                                .map(|e| format!("{:?} {:?}", e.kind, e.paths.iter().map(|p| strip_cwd(p)).collect::<Vec<_>>()))
                                .collect::<Vec<_>>(),
                            msg
                        ),
                    ));
                    break;
                }
                let rec_writes: BTreeSet<String> = pass_log
                    .iter()
                    .filter(|r| r.op == crate::simfs::OpKind::Write)
                    .map(|r| r.path.clone())
                    .collect();
                let outputs = store
                    .snapshot()
                    .iter()
                    .filter(|(p, c)| c.is_some() && (p.starts_with(&format!("{}/", region)) || **p == region))
                    .count();
                if !rec_writes.is_empty() && rec_writes.len() < outputs {
                    stats.nontrivial = true;
                }
            }
            let _ = delivered_any;
            debounce.now = until;
        }};
    }

    let mut now: u64 = 0;
    for (op_index, op) in scn.ops.iter().enumerate() {
        if !violations.is_empty() {
            break;
        }
        *stats.ops.entry(op_kind(op).to_owned()).or_insert(0) += 1;
        match op {
            Op::Pass => {
                if !started {
                    // `FileWatcher::start`: first run, then the watches are installed
                    started = true;
                    fs.set_budget(budget);
                    let log_start = fs.log_len();
                    let _ = exec::take_captured_errors();
                    crate::include_rule::reset_loop_guard();
                    let result = exec::catch(|| watcher.verif_first_run());
                    last_batch_error = exec::take_captured_errors()
                        .into_iter()
                        .find(|(target, message)| {
                        target.contains("file_watcher")
                            || !message.starts_with("an error happened while processing")
                    })
                        .map(|(_, message)| message);
                    fs.set_budget(u64::MAX / 2);
                    let pass_log = fs.log_since(log_start);
                    oracle.note_log(&pass_log);
                    signature = crate::rng::mix(signature, crate::c11::io_signature(&pass_log));
                    stats.passes += 1;
                    stats.executions += 1;
                    if let Err(msg) = result {
                        violations.push(Violation::new(
                            P,
                            "bounded",
                            &format!("panic@{}", msg.rsplit(" at ").next().unwrap_or("?")),
                            format!("the first run panicked: {}", msg),
                        ));
                        break;
                    }
                    watches.watch_recursive(&fs, &scn.opts.input);
                    for c in &config_paths {
                        watches.watch_file(&fs, c);
                    }
                    for signal in watcher.verif_drain_signals() {
                        match signal {
                            crate::cli::utils::VerifWatchSignal::Watch(p) => {
                                watches.watch_recursive(&fs, &strip_cwd(&p))
                            }
                            crate::cli::utils::VerifWatchSignal::Unwatch(p) => {
                                watches.unwatch(&strip_cwd(&p))
                            }
                            crate::cli::utils::VerifWatchSignal::Exit => {}
                        }
                    }
                } else {
                    // let the debouncer drain completely
                    let until = now + TIMEOUT_MS + 2 * TICK_MS;
                    advance!(until, true);
                    now = until;
                    if !violations.is_empty() {
                        break;
                    }
                    if !debounce.is_empty() {
                        // cannot happen: every event is older than the timeout by now
                        violations.push(Violation::new(
                            P,
                            "harness",
                            "debouncer-not-drained",
                            "events left in the debouncer after the drain window".to_owned(),
                        ));
                        break;
                    }
                }
                let outcome = match &last_batch_error {
                    Some(message) => Outcome::BatchErr(message.clone()),
                    None => watcher_outcome(&watcher, &scn.opts),
                };
                // faults are active during one drain window only
                fs.set_faults(Vec::new());
                let faulty_pass = pending_fault_pass;
                pending_fault_pass = false;
                let before = violations.len();
                oracle.compare(
                    &store,
                    &scn.opts,
                    &outcome,
                    &[],
                    pass_index,
                    faulty_pass,
                    stats,
                    &mut violations,
                );
                pass_index += 1;
                if violations.len() > before {
                    break;
                }
                if faulty_pass {
                    for path in std::mem::take(&mut pending_renotify) {
                        let events = apply_op(&fs, &mut watches, &Op::Touch { path }, SaveStyle::InPlace);
                        if std::env::var_os("VERIF_TRACE").is_some() {
                            crate::outln!("[t={}] renotify -> {} raw events", now, events.len());
                        }
                        for e in events {
                            debounce.now = now;
                            debounce.add_event(e, |p| fs.user_exists(&gen::normalize(&strip_cwd(p))));
                        }
                    }
                }
            }
            Op::Wait { ms } => {
                let until = now + ms;
                advance!(until, false);
                now = until;
            }
            Op::Faults { rules, renotify } => {
                fs.set_faults(rules.clone());
                pending_fault_pass = true;
                pending_renotify = renotify.clone();
            }
            Op::ConfigObject { .. } | Op::FailFastNext | Op::GeneratorOverride { .. } => {}
            Op::ForeignDir { path } => {
                // the output location is not watched: no event
                fs.user_mkdir(path);
            }
            Op::TamperOutput { output, body, source } if started => {
                // the output location is not watched: no event for the tampering itself
                match body.as_ref().and_then(|b| b.bytes()) {
                    Some(bytes) => fs.user_write(output, &bytes),
                    None => {
                        fs.user_remove(output);
                    }
                }
                let until = now + TIMEOUT_MS + 2 * TICK_MS;
                advance!(until, false);
                now = until;
                if !violations.is_empty() {
                    break;
                }
                debounce.now = now;
                let events = apply_op(&fs, &mut watches, &Op::Touch { path: source.clone() }, SaveStyle::InPlace);
                for e in events {
                    debounce.add_event(e, |p| fs.user_exists(&gen::normalize(&strip_cwd(p))));
                }
            }
            Op::TamperOutput { .. } => {}
            other => {
                if !started {
                    continue;
                }
                // classification help for the oracle
                match other {
                    Op::RemoveFile { path } | Op::RemoveDir { path } | Op::Rename { from: path, .. } => {
                        for p in store.snapshot().keys() {
                            if (p == path || p.starts_with(&format!("{}/", path))) && gen::is_lua(p) {
                                oracle.removed_sources.insert(p.clone());
                            }
                        }
                    }
                    Op::Edit { path, .. } | Op::Add { path, .. } => {
                        oracle.removed_sources.remove(path);
                    }
                    _ => {}
                }
                // operations on a path that still has undelivered events are separated by
                // a full debounce window: what the debouncer makes of several operations
                // on one path in one window (create + remove = nothing, rename + remove =
                // remove of the new name only) loses notifications, which is out of scope
                let related: Vec<String> = match other {
                    Op::Edit { path, .. }
                    | Op::Add { path, .. }
                    | Op::Touch { path }
                    | Op::RemoveFile { path }
                    | Op::RemoveDir { path } => vec![path.clone()],
                    Op::Rename { from, to } => vec![from.clone(), to.clone()],
                    _ => Vec::new(),
                };
                let interferes = related.iter().any(|p| {
                    watches.event_paths(p).iter().any(|a| {
                        debounce.has_queue_under(a) || {
                            let mut anc = a.parent();
                            let mut hit = false;
                            while let Some(x) = anc {
                                if debounce.has_exact_queue(x) {
                                    hit = true;
                                }
                                anc = x.parent();
                            }
                            hit
                        }
                    }) || watches
                        .event_paths(&format!("{}.tmp~", p))
                        .iter()
                        .any(|a| debounce.has_queue_under(a))
                });
                if interferes {
                    let until = now + TIMEOUT_MS + 2 * TICK_MS;
                    advance!(until, false);
                    now = until;
                    if !violations.is_empty() {
                        break;
                    }
                }
                let style = match other {
                    Op::Edit { path, body } => {
                        // files that are only covered by an inode watch are saved in place
                        // (an atomic save there loses the watch: a lost notification, out
                        // of scope); so is the configuration
                        let only_inode = !watches.dir_watched(path);
                        let _ = body;
                        // the debouncer coalesces a non-in-place save with other
                        // operations on the same path in the same window into batches
                        // that lose information (create + remove = nothing): such
                        // lost notifications are out of scope, so those styles are used
                        // only when the save is alone in its debounce window
                        let pending = watches
                            .event_paths(path)
                            .iter()
                            .chain(watches.event_paths(gen::parent(path)).iter())
                            .any(|a| debounce.has_queue_under(a));
                        let mut followed = false;
                        let mut waited = 0u64;
                        for later in &scn.ops[op_index + 1..] {
                            match later {
                                Op::Pass => break,
                                Op::Wait { ms } => {
                                    waited += ms;
                                    if waited >= TIMEOUT_MS + 2 * TICK_MS {
                                        break;
                                    }
                                }
                                Op::Faults { .. } | Op::ConfigObject { .. } => {}
                                other_op => {
                                    let touches = match other_op {
                                        Op::Edit { path: p, .. }
                                        | Op::Add { path: p, .. }
                                        | Op::Touch { path: p }
                                        | Op::RemoveFile { path: p }
                                        | Op::RemoveDir { path: p } => {
                                            p == path || path.starts_with(&format!("{}/", p))
                                        }
                                        Op::Rename { from, to } => from == path || to == path,
                                        _ => false,
                                    };
                                    if touches {
                                        followed = true;
                                    }
                                }
                            }
                        }
                        // a file under both a directory watch and an inode watch (darklua
                        // adds one for every bundled dependency): the real stack delivers
                        // nothing at all for an atomic save there (calibrated) - a lost
                        // notification, out of scope
                        let both = watches.files.contains_key(path);
                        if only_inode || pending || followed || both {
                            SaveStyle::InPlace
                        } else {
                            style_for(scn.seed, op_index)
                        }
                    }
                    _ => SaveStyle::InPlace,
                };
                debounce.now = now;
                let events = apply_op(&fs, &mut watches, other, style);
                if std::env::var_os("VERIF_TRACE").is_some() {
                    crate::outln!(
                        "[t={}] op {} {:?} -> {} raw events; dirs={:?} files={:?}",
                        now,
                        op_kind(other),
                        style,
                        events.len(),
                        watches.dirs,
                        watches.files
                    );
                }
                *stats
                    .ops
                    .entry(format!("save:{:?}", style))
                    .or_insert(0) += matches!(other, Op::Edit { .. }) as u64;
                for e in events {
                    debounce.add_event(e, |p| fs.user_exists(&gen::normalize(&strip_cwd(p))));
                }
            }
        }
    }
    stats.sim_ms = now;
    stats.io_signature = signature;
    let _ = Body::Dir;
    violations
}
