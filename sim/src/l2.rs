//! C10 layer L2 (real FileWatcher behind a stubbed notify/debouncer) - placeholder.

use crate::{c10::RunStats, model::{C10Scenario, Violation}};

pub fn run_l2(_scn: &C10Scenario, _stats: &mut RunStats) -> Vec<Violation> {
    Vec::new()
}
