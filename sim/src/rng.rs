//! The only source of randomness of the harness: SplitMix64 -> xoshiro256**.
//! One integer (VERIF_SEED) decides every scenario; executing a scenario draws nothing.

#[inline]
pub fn splitmix(x: &mut u64) -> u64 {
    *x = x.wrapping_add(0x9E37_79B9_7F4A_7C15);
    let mut z = *x;
    z = (z ^ (z >> 30)).wrapping_mul(0xBF58_476D_1CE4_E5B9);
    z = (z ^ (z >> 27)).wrapping_mul(0x94D0_49BB_1331_11EB);
    z ^ (z >> 31)
}

/// Mix two integers into one (used to derive per-run and per-stream seeds).
pub fn mix(a: u64, b: u64) -> u64 {
    let mut x = a ^ b.rotate_left(32) ^ 0xD6E8_FEB8_6659_FD93;
    let r = splitmix(&mut x);
    let mut y = r ^ b;
    splitmix(&mut y)
}

/// Deterministic hash of a string under a seed (FNV-1a folded through splitmix).
pub fn hash_str(seed: u64, s: &str) -> u64 {
    let mut h: u64 = 0xcbf2_9ce4_8422_2325 ^ seed;
    for b in s.as_bytes() {
        h ^= *b as u64;
        h = h.wrapping_mul(0x0000_0100_0000_01B3);
    }
    mix(h, seed)
}

pub fn hash_bytes(seed: u64, s: &[u8]) -> u64 {
    let mut h: u64 = 0xcbf2_9ce4_8422_2325 ^ seed;
    for b in s {
        h ^= *b as u64;
        h = h.wrapping_mul(0x0000_0100_0000_01B3);
    }
    mix(h, seed)
}

#[derive(Clone, Debug)]
pub struct Rng {
    s: [u64; 4],
}

impl Rng {
    pub fn new(seed: u64) -> Self {
        let mut x = seed;
        let s = [
            splitmix(&mut x),
            splitmix(&mut x),
            splitmix(&mut x),
            splitmix(&mut x),
        ];
        Rng { s }
    }

    /// Independent stream derived from a seed and a stream name.
    pub fn stream(seed: u64, name: &str) -> Self {
        Rng::new(hash_str(seed, name))
    }

    pub fn next_u64(&mut self) -> u64 {
        let result = self.s[1].wrapping_mul(5).rotate_left(7).wrapping_mul(9);
        let t = self.s[1] << 17;
        self.s[2] ^= self.s[0];
        self.s[3] ^= self.s[1];
        self.s[1] ^= self.s[2];
        self.s[0] ^= self.s[3];
        self.s[2] ^= t;
        self.s[3] = self.s[3].rotate_left(45);
        result
    }

    /// Uniform in 0..n (n > 0).
    pub fn below(&mut self, n: usize) -> usize {
        debug_assert!(n > 0);
        (self.next_u64() % (n as u64)) as usize
    }

    /// Uniform in lo..=hi.
    pub fn range(&mut self, lo: usize, hi: usize) -> usize {
        lo + self.below(hi - lo + 1)
    }

    pub fn chance(&mut self, num: u32, den: u32) -> bool {
        (self.next_u64() % den as u64) < num as u64
    }

    pub fn pick<'a, T>(&mut self, items: &'a [T]) -> &'a T {
        &items[self.below(items.len())]
    }

    pub fn shuffle<T>(&mut self, items: &mut [T]) {
        for i in (1..items.len()).rev() {
            let j = self.below(i + 1);
            items.swap(i, j);
        }
    }
}
