//! Tier B: the same C11 scenarios on the real `Source::FileSystem` arm and the real
//! `darklua` binary (subprocess on a tmpfs scratch directory, natural faults only).
//! Enumeration order is controlled through file creation order (tmpfs `readdir` order is a
//! function of it) and hash order through the LD_PRELOADed getrandom shim.

use std::{
    collections::BTreeMap,
    fs,
    io::Read,
    os::unix::fs::symlink,
    path::{Path, PathBuf},
    process::{Command, Stdio},
    sync::atomic::{AtomicU64, Ordering},
    time::{Duration, Instant},
};

use crate::{
    exec::Outcome,
    model::{Body, ConfigSource, FsEntry, OptSpec},
    rng::hash_str,
    simfs::Snapshot,
};

static COUNTER: AtomicU64 = AtomicU64::new(0);

pub fn binary_path() -> Option<PathBuf> {
    let path = std::env::var_os("VERIF_DARKLUA_BIN").map(PathBuf::from)?;
    path.is_file().then_some(path)
}

pub fn shim_path() -> Option<PathBuf> {
    let path = std::env::var_os("VERIF_HASH_SHIM").map(PathBuf::from)?;
    path.is_file().then_some(path)
}

pub fn available() -> bool {
    binary_path().is_some() && shim_path().is_some()
}

pub struct Scratch {
    pub root: PathBuf,
}

impl Scratch {
    pub fn new() -> Result<Scratch, String> {
        let n = COUNTER.fetch_add(1, Ordering::Relaxed);
        // tmpfs when there is one (its readdir order is a function of creation order);
        // any temporary directory otherwise
        for base in ["/dev/shm".to_owned(), std::env::temp_dir().to_string_lossy().into_owned()] {
            let root = PathBuf::from(format!(
                "{}/darklua-verif-{}-{}",
                base,
                std::process::id(),
                n
            ));
            let _ = fs::remove_dir_all(&root);
            if fs::create_dir_all(&root).is_ok() {
                return Ok(Scratch { root });
            }
        }
        Err("cannot create a scratch directory under /dev/shm or the temporary directory".to_owned())
    }
}

impl Drop for Scratch {
    fn drop(&mut self) {
        let _ = fs::remove_dir_all(&self.root);
    }
}

/// Create the entries under `root`; siblings are created in an order drawn from
/// `walk_seed`, which fixes the order `read_dir` returns them in on tmpfs.
pub fn materialize(root: &Path, entries: &[FsEntry], walk_seed: u64) -> Result<(), String> {
    let mut ordered: Vec<&FsEntry> = entries.iter().collect();
    ordered.sort_by_key(|e| hash_str(walk_seed, &e.path));
    for entry in ordered {
        let path = root.join(&entry.path);
        if let Some(parent) = path.parent() {
            fs::create_dir_all(parent).map_err(|e| format!("mkdir {}: {}", parent.display(), e))?;
        }
        match &entry.body {
            Body::Dir => {
                fs::create_dir_all(&path).map_err(|e| format!("mkdir {}: {}", path.display(), e))?
            }
            Body::Symlink(target) => {
                symlink(target, &path).map_err(|e| format!("symlink {}: {}", path.display(), e))?
            }
            other => {
                let bytes = other.bytes().unwrap_or_default();
                fs::write(&path, bytes).map_err(|e| format!("write {}: {}", path.display(), e))?
            }
        }
    }
    Ok(())
}

fn walk(root: &Path, dir: &Path, out: &mut Snapshot) {
    let read = match fs::read_dir(dir) {
        Ok(read) => read,
        Err(_) => return,
    };
    for entry in read.flatten() {
        let path = entry.path();
        let rel = path
            .strip_prefix(root)
            .unwrap_or(&path)
            .to_string_lossy()
            .into_owned();
        let meta = match fs::symlink_metadata(&path) {
            Ok(meta) => meta,
            Err(_) => continue,
        };
        if meta.file_type().is_symlink() {
            let target = fs::read_link(&path)
                .map(|t| t.to_string_lossy().into_owned())
                .unwrap_or_default();
            out.insert(rel, Some(format!("<symlink:{}>", target).into_bytes()));
        } else if meta.is_dir() {
            out.insert(rel.clone(), None);
            walk(root, &path, out);
        } else {
            out.insert(rel, Some(fs::read(&path).unwrap_or_default()));
        }
    }
}

pub fn snapshot(root: &Path) -> Snapshot {
    let mut out = Snapshot::new();
    walk(root, root, &mut out);
    out
}

/// The order in which `read_dir` lists the children of every directory (recorded in the
/// evidence rather than assumed).
pub fn readdir_orders(root: &Path) -> BTreeMap<String, Vec<String>> {
    let mut out = BTreeMap::new();
    let mut stack = vec![root.to_path_buf()];
    while let Some(dir) = stack.pop() {
        let mut names = Vec::new();
        if let Ok(read) = fs::read_dir(&dir) {
            for entry in read.flatten() {
                names.push(entry.file_name().to_string_lossy().into_owned());
                if entry.file_type().map(|t| t.is_dir()).unwrap_or(false) {
                    stack.push(entry.path());
                }
            }
        }
        out.insert(
            dir.strip_prefix(root)
                .unwrap_or(&dir)
                .to_string_lossy()
                .into_owned(),
            names,
        );
    }
    out
}

/// Can this invocation be expressed on the command line?
pub fn cli_args(opts: &OptSpec) -> Option<Vec<String>> {
    if opts.fail_fast {
        return None;
    }
    let output = opts.output.clone().unwrap_or_else(|| opts.input.clone());
    match &opts.config {
        ConfigSource::Object(text) => {
            // only `darklua minify` builds a configuration object
            let value: serde_json::Value = serde_json::from_str(text).ok()?;
            let obj = value.as_object()?;
            if obj.len() != 2 || obj.get("rules")?.as_array()?.len() != 0 {
                return None;
            }
            let generator = obj.get("generator")?.as_object()?;
            if generator.get("name")?.as_str()? != "dense" || opts.generator_override.is_some() {
                return None;
            }
            let span = generator.get("column_span")?.as_u64()?;
            Some(vec![
                "minify".to_owned(),
                opts.input.clone(),
                output,
                "--column-span".to_owned(),
                span.to_string(),
            ])
        }
        ConfigSource::Default | ConfigSource::At(_) => {
            let mut args = vec!["process".to_owned(), opts.input.clone(), output];
            if let ConfigSource::At(path) = &opts.config {
                args.push("--config".to_owned());
                args.push(path.clone());
            }
            if let Some(format) = &opts.generator_override {
                args.push("--format".to_owned());
                args.push(format.clone());
            }
            Some(args)
        }
    }
}

pub struct RealRun {
    pub outcome: Outcome,
    pub exit_code: Option<i32>,
    pub stdout: String,
    pub stderr: String,
}

/// Parse what `report_process` and the logger print.
fn parse_outcome(exit_code: Option<i32>, stdout: &str, stderr: &str, timed_out: bool) -> Outcome {
    if timed_out {
        return Outcome::Panic("verif: subprocess did not finish within 180 s at subprocess:0".to_owned());
    }
    match exit_code {
        Some(0) | Some(1) => {}
        other => {
            let first = stderr
                .lines()
                .find(|l| l.contains("panicked"))
                .unwrap_or_else(|| stderr.lines().next().unwrap_or(""));
            let location = first
                .split(" at ")
                .nth(1)
                .map(|s| s.trim_end_matches(':').to_owned())
                .unwrap_or_else(|| "subprocess".to_owned());
            return Outcome::Panic(format!(
                "exit status {:?}: {} at {}",
                other,
                stderr.lines().take(4).collect::<Vec<_>>().join(" | "),
                location
            ));
        }
    }
    let success = stdout
        .lines()
        .find_map(|l| {
            let mut words = l.split_whitespace();
            if words.next()? == "successfully" {
                words.next()?;
                words.next()?.parse::<usize>().ok()
            } else {
                None
            }
        });
    let mut errors: Vec<String> = Vec::new();
    let mut current: Option<String> = None;
    for line in stderr.lines() {
        // every failing file is listed as `-> <error>`; continuation lines belong to the
        // error above them; the wording of the header line does not matter
        if let Some(rest) = line.strip_prefix("-> ") {
            if let Some(done) = current.take() {
                errors.push(done);
            }
            current = Some(rest.to_owned());
        } else if let Some(cur) = current.as_mut() {
            cur.push('\n');
            cur.push_str(line);
        }
    }
    if let Some(done) = current.take() {
        errors.push(done);
    }
    // be liberal in what is accepted from the binary's wording: the exit code and the
    // `-> <error>` list are what matters
    match exit_code {
        Some(0) => Outcome::Done {
            errors: Vec::new(),
            success: success.unwrap_or(0),
        },
        Some(1) if !errors.is_empty() => {
            let mut errors = errors;
            errors.sort();
            Outcome::Done {
                errors,
                success: success.unwrap_or(0),
            }
        }
        Some(1) => {
            // the logger prints " ERROR > message"
            let message = stderr
                .split("ERROR")
                .nth(1)
                .map(|s| s.trim_start_matches(|c: char| !c.is_alphanumeric() && c != '`'))
                .unwrap_or(stderr)
                .trim()
                .to_owned();
            Outcome::BatchErr(message)
        }
        _ => Outcome::BatchErr(format!(
            "harness: unparsable subprocess result: exit {:?}, stdout {:?}, stderr {:?}",
            exit_code, stdout, stderr
        )),
    }
}

pub fn run_binary(root: &Path, args: &[String], hash_seed: u64) -> Result<RealRun, String> {
    let binary = binary_path().ok_or("VERIF_DARKLUA_BIN not set")?;
    let shim = shim_path().ok_or("VERIF_HASH_SHIM not set")?;
    let mut child = Command::new(binary)
        .args(args)
        .current_dir(root)
        .env("LD_PRELOAD", shim)
        .env("DVSIM_HASH_SEED", hash_seed.to_string())
        .env("NO_COLOR", "1")
        .env_remove("RUST_LOG")
        .stdin(Stdio::null())
        .stdout(Stdio::piped())
        .stderr(Stdio::piped())
        .spawn()
        .map_err(|e| format!("cannot spawn darklua: {}", e))?;
    let started = Instant::now();
    let mut timed_out = false;
    let status = loop {
        match child.try_wait() {
            Ok(Some(status)) => break Some(status),
            Ok(None) => {
                if started.elapsed() > Duration::from_secs(180) {
                    let _ = child.kill();
                    let _ = child.wait();
                    timed_out = true;
                    break None;
                }
                std::thread::sleep(Duration::from_millis(1));
            }
            Err(e) => return Err(format!("wait failed: {}", e)),
        }
    };
    let mut stdout = String::new();
    let mut stderr = String::new();
    if let Some(mut out) = child.stdout.take() {
        let _ = out.read_to_string(&mut stdout);
    }
    if let Some(mut err) = child.stderr.take() {
        let mut bytes = Vec::new();
        let _ = err.read_to_end(&mut bytes);
        stderr = String::from_utf8_lossy(&bytes).into_owned();
    }
    // strip ANSI colour sequences of the logger
    let stderr = strip_ansi(&stderr);
    let exit_code = status.and_then(|s| s.code());
    Ok(RealRun {
        outcome: parse_outcome(exit_code, &stdout, &stderr, timed_out),
        exit_code,
        stdout,
        stderr,
    })
}

fn strip_ansi(text: &str) -> String {
    let mut out = String::with_capacity(text.len());
    let mut chars = text.chars().peekable();
    while let Some(c) = chars.next() {
        if c == '\u{1b}' {
            if chars.peek() == Some(&'[') {
                chars.next();
                for d in chars.by_ref() {
                    if d.is_ascii_alphabetic() {
                        break;
                    }
                }
            }
        } else {
            out.push(c);
        }
    }
    out
}
