//! Generation of C10 histories: a small world model of the project (which files exist,
//! their versions, who requires whom, the configuration) is evolved by random user
//! operations; each operation is emitted with its rendered bytes so that executing a
//! scenario needs no model.

use std::collections::BTreeSet;

use crate::{
    corpus,
    gen::{self, ConfigParts, Project, ProjectKnobs, SourceFile},
    model::{Backend, Body, C10Scenario, ConfigSource, FsEntry, Layer, Op, OptSpec},
    rng::Rng,
    simfs::{FaultKind, FaultRule},
};

#[derive(Clone, Debug)]
struct WSource {
    path: String,
    body_index: usize,
    version: u32,
    requires: Vec<String>,
    broken: bool,
    id: usize,
    use_alias: bool,
    bare: bool,
}

#[derive(Clone, Debug)]
struct World {
    input: String,
    input_is_file: bool,
    output: String,
    sources: Vec<WSource>,
    /// modules outside the input directory (only reachable through bundling)
    externals: Vec<WSource>,
    data: Vec<(String, u32, usize, &'static str)>,
    config: ConfigParts,
    config_path: Option<String>,
    next_id: usize,
    aliases: Vec<gen::AliasDef>,
    /// (path of the Rojo sourcemap, version) when requires are converted through one
    sourcemap: Option<(String, u32)>,
}

impl World {
    fn render(&self, s: &WSource) -> String {
        if s.broken {
            return corpus::SYNTAX_ERRORS[s.body_index % corpus::SYNTAX_ERRORS.len()]
                .replace("{M}", &format!("\"m{}_{}\"", s.id, s.version));
        }
        let requires: Vec<String> = s
            .requires
            .iter()
            .map(|to| {
                if s.use_alias {
                    gen::require_text(&s.path, to, &self.aliases)
                } else if s.bare {
                    gen::bare_require(&s.path, to)
                } else {
                    gen::relative_require(&s.path, to)
                }
            })
            .collect();
        corpus::render_lua(
            corpus::BODIES[s.body_index % corpus::BODIES.len()],
            &format!("m{}_{}", s.id, s.version),
            &requires,
        )
    }

    /// The configuration as written to its file: `{CFGREL}` is the way from the
    /// configuration file's directory to the working directory.
    fn config_text(&self) -> String {
        let rel = match &self.config_path {
            Some(path) if !gen::parent(path).is_empty() => "../",
            _ => "./",
        };
        self.config.to_text().replace("{CFGREL}", rel)
    }

    fn all_lua(&self) -> Vec<&WSource> {
        self.sources.iter().chain(self.externals.iter()).collect()
    }

    fn find_mut(&mut self, path: &str) -> Option<&mut WSource> {
        self.sources
            .iter_mut()
            .chain(self.externals.iter_mut())
            .find(|s| s.path == path)
    }

    fn reaches(&self, from: &str, to: &str) -> bool {
        let mut seen: BTreeSet<String> = BTreeSet::new();
        let mut stack = vec![from.to_owned()];
        while let Some(x) = stack.pop() {
            if x == to {
                return true;
            }
            if !seen.insert(x.clone()) {
                continue;
            }
            if let Some(s) = self.all_lua().into_iter().find(|s| s.path == x) {
                for r in &s.requires {
                    stack.push(r.clone());
                }
            }
        }
        false
    }

    fn dirs_with_sources(&self) -> Vec<String> {
        let mut dirs: BTreeSet<String> = BTreeSet::new();
        for s in &self.sources {
            let mut p = gen::parent(&s.path);
            while p.len() > self.input.len() && p.starts_with(&self.input) {
                dirs.insert(p.to_owned());
                p = gen::parent(p);
            }
        }
        dirs.into_iter().collect()
    }
}

#[derive(Clone, Debug)]
pub struct Knobs {
    /// use the harness rule `verif_include` (source -> source dependencies through
    /// `Rule::require_content`); L1 with a configuration object only
    pub include_graph: bool,
    pub layer: Layer,
    pub max_ops: usize,
    pub allow_faults: bool,
    /// avoid the triggers of open known findings (names listed)
    pub avoid: Vec<String>,
    /// L1 over the real file system through the library (`Source::FileSystem` itself):
    /// nothing outside the scratch directory, no injected faults, and now and then another
    /// program creating folders in the output location
    pub real_lib: bool,
}

fn rule_filter_variant(rng: &mut Rng, rule: &str) -> String {
    // add / change a filter on a rule (string form -> object form)
    let name = if rule.starts_with('"') {
        rule.trim_matches('"').to_owned()
    } else {
        return rule.to_owned();
    };
    let pattern = *rng.pick(&["**/a.lua", "**/sub/**", "**/*.luau", "**/main.*"]);
    if rng.chance(1, 2) {
        format!("{{\"rule\":\"{}\",\"apply_to_files\":[\"{}\"]}}", name, pattern)
    } else {
        format!("{{\"rule\":\"{}\",\"skip_files\":[\"{}\"]}}", name, pattern)
    }
}

pub fn generate(seed: u64, knobs: &Knobs) -> C10Scenario {
    let mut rp = Rng::stream(seed, "project");
    let mut rc = Rng::stream(seed, "config");
    let mut rh = Rng::stream(seed, "history");
    let mut rf = Rng::stream(seed, "faults");
    let mut ro = Rng::stream(seed, "orders");
    let mut rk = Rng::stream(seed, "knobs");

    let real = knobs.layer == Layer::LW || knobs.real_lib;
    let backend = if knobs.layer == Layer::L1 && !knobs.real_lib && rk.chance(1, 6) {
        Backend::Memory
    } else {
        Backend::SimFs
    };
    let avoid = |name: &str| knobs.avoid.iter().any(|a| a == name);
    let pk = ProjectKnobs {
        max_sources: 6,
        allow_file_input: true,
        allow_bundle: true,
        memory_safe: backend == Backend::Memory,
        allow_outside: !real,
        allow_source_alias: false,
        allow_late_luaurc: !real,
    };
    let graph_mode = knobs.include_graph && knobs.layer == Layer::L1;
    let pk = if graph_mode {
        ProjectKnobs {
            allow_file_input: false,
            allow_bundle: false,
            ..pk
        }
    } else {
        pk
    };
    let mut project: Project = gen::gen_project(&mut rp, &pk);
    if project.input_is_file && project.bundle.is_none() {
        project.bundle = Some("path".to_owned());
        // the entry requires the others
        let others: Vec<String> = project.sources.iter().skip(1).map(|s| s.path.clone()).collect();
        if !gen::is_module_folder_file(&project.sources[0].path) {
            project.sources[0].requires.extend(others);
        }
    }
    // entry at the top level of the cwd (the `./`-prefixed dependency case)
    let top_level_entry = project.input_is_file && rk.chance(1, 3) && !avoid("top-level-entry");
    if top_level_entry {
        // move everything one level up: strip the input directory prefix of the entry
        let entry_dir = gen::parent(&project.sources[0].path).to_owned();
        let strip = |p: &str| -> String {
            if entry_dir.is_empty() {
                p.to_owned()
            } else {
                p.strip_prefix(&format!("{}/", entry_dir))
                    .map(str::to_owned)
                    .unwrap_or_else(|| format!("ext/{}", gen::file_name(p)))
            }
        };
        let paths: Vec<(String, String)> = project
            .sources
            .iter()
            .map(|s| (s.path.clone(), strip(&s.path)))
            .collect();
        let mut used: BTreeSet<String> = BTreeSet::new();
        let mut ok = true;
        for (_, n) in &paths {
            if !used.insert(n.clone()) {
                ok = false;
            }
        }
        if ok {
            for s in project.sources.iter_mut() {
                let new = paths.iter().find(|(o, _)| *o == s.path).unwrap().1.clone();
                s.path = new;
                for r in s.requires.iter_mut() {
                    if let Some((_, n)) = paths.iter().find(|(o, _)| o == r) {
                        *r = n.clone();
                    }
                }
            }
            project.data.clear();
            for s in project.sources.iter_mut() {
                s.requires.retain(|r| gen::is_lua(r));
            }
            project.input = project.sources[0].path.clone();
        }
    }
    let mut parts = gen::gen_config_parts(&mut rc, project.bundle.as_deref());
    if project.convert {
        parts.convert_sourcemap = Some("sourcemap.json".to_owned());
    }
    parts.bundle_luau_aliases = project.config_alias.iter().cloned().collect();
    // in-place processing (no output location), L1 only: sources are rewritten where they
    // are, the reference is a fresh in-place run over what the user wrote (c10.rs). The
    // configuration stays fixed (a configuration change re-processes files that were
    // already rewritten) and uses rules that are visibly not the identity yet idempotent.
    let in_place = knobs.layer == Layer::L1
        && !knobs.real_lib
        && !graph_mode
        && project.bundle.is_none()
        && !project.convert
        && !project.input_is_file
        && Rng::stream(seed, "in-place").chance(1, 10);
    if in_place {
        let mut ri = Rng::stream(seed, "in-place-config");
        parts.rules = Some(match ri.below(3) {
            0 => vec!["\"remove_comments\"".to_owned()],
            1 => vec!["\"remove_comments\"".to_owned(), "\"remove_spaces\"".to_owned()],
            _ => vec!["\"remove_spaces\"".to_owned(), "\"remove_comments\"".to_owned(), "\"remove_types\"".to_owned()],
        });
        parts.generator = match ri.below(3) {
            0 => None,
            1 => Some("dense".to_owned()),
            _ => Some("readable".to_owned()),
        };
        parts.apply_to_files.clear();
        parts.skip_files.clear();
    }
    let config_text = parts.to_text();
    let mut invocation = gen::gen_invocation(
        &mut rk,
        &project,
        &config_text,
        false,
        knobs.layer == Layer::L1,
        backend,
        false,
    );
    if in_place {
        // nothing of the output location chosen above is needed
        let dropped = invocation.opts.output.take().map(|o| gen::normalize(&o)).unwrap_or_default();
        if !dropped.is_empty() {
            invocation
                .extra_entries
                .retain(|e| e.path != dropped && !e.path.starts_with(&format!("{}/", dropped)));
        }
        invocation.opts.generator_override = None;
        if Rng::stream(seed, "in-place-output").chance(1, 3) {
            // the other way to say "in place": the input as output location
            invocation.opts.output = Some(project.input.clone());
        }
    }
    if knobs.layer != Layer::L1 {
        invocation.opts.generator_override = None;
    }
    let mut sourcemap: Option<(String, u32)> = None;
    if project.convert && !graph_mode {
        let config_path = invocation
            .extra_entries
            .iter()
            .find(|e| matches!(&e.body, Body::Text(t) if *t == config_text))
            .map(|e| e.path.clone())
            .unwrap_or_else(|| ".darklua.json".to_owned());
        let sourcemap_path = gen::join(gen::parent(&config_path), "sourcemap.json");
        let paths: Vec<String> = project.sources.iter().map(|s| s.path.clone()).collect();
        invocation.extra_entries.push(FsEntry {
            path: sourcemap_path.clone(),
            body: Body::Text(gen::render_sourcemap(&paths, &sourcemap_path, "Project")),
        });
        sourcemap = Some((sourcemap_path, 0));
    }
    let mut include_deps: Option<std::collections::BTreeMap<String, Vec<String>>> = None;
    if graph_mode {
        invocation.opts.config = ConfigSource::Object(config_text.clone());
        invocation
            .extra_entries
            .retain(|e| !e.path.starts_with(".darklua") && !e.path.contains("config") && !e.path.starts_with("cfg/"));
        // source -> sources whose processed output it includes (acyclic, rarely a cycle)
        let mut deps = std::collections::BTreeMap::new();
        let n = project.sources.len();
        for i in 0..n {
            let mut list = Vec::new();
            for j in (i + 1)..n {
                if rk.chance(1, 2) {
                    list.push(project.sources[j].path.clone());
                }
            }
            if !list.is_empty() {
                deps.insert(project.sources[i].path.clone(), list);
            }
        }
        if n >= 2 && rk.chance(1, 12) {
            // a dependency cycle: a fresh run reports cyclic work, so must every pass
            deps.entry(project.sources[n - 1].path.clone())
                .or_insert_with(Vec::new)
                .push(project.sources[0].path.clone());
            deps.entry(project.sources[0].path.clone())
                .or_insert_with(Vec::new)
                .push(project.sources[n - 1].path.clone());
        }
        include_deps = Some(deps);
    }
    let mut opts: OptSpec = invocation.opts.clone();
    opts.include_deps = include_deps.clone();
    // sources that others include are never removed or renamed in graph mode: a rule
    // that asks for the content of a file that is not a source is a misuse of the API
    let protected: BTreeSet<String> = include_deps
        .iter()
        .flat_map(|d| d.values().flatten().cloned())
        .collect();
    let output = match opts.output.as_deref() {
        Some(output) => gen::normalize(output),
        None => gen::normalize(&project.input),
    };

    let mut next_id = 0usize;
    let mut mk = |s: &SourceFile| {
        let w = WSource {
            path: s.path.clone(),
            body_index: s.body_index,
            version: 0,
            requires: s.requires.clone(),
            broken: false,
            id: next_id,
            use_alias: s.use_alias,
            bare: s.bare,
        };
        next_id += 1;
        w
    };
    let mut world = World {
        input: gen::normalize(&project.input),
        input_is_file: project.input_is_file,
        output: output.clone(),
        sources: Vec::new(),
        externals: Vec::new(),
        data: Vec::new(),
        config: parts,
        config_path: match &opts.config {
            ConfigSource::Object(_) => None,
            ConfigSource::At(p) => Some(p.clone()),
            ConfigSource::Default => invocation
                .extra_entries
                .iter()
                .find(|e| e.path.starts_with(".darklua"))
                .map(|e| e.path.clone()),
        },
        next_id: 0,
        aliases: if top_level_entry { Vec::new() } else { project.aliases.clone() },
        sourcemap,
    };
    if project.input_is_file {
        world.sources.push(mk(&project.sources[0]));
        for s in project.sources.iter().skip(1) {
            world.externals.push(mk(s));
        }
    } else {
        for s in &project.sources {
            world.sources.push(mk(s));
        }
        // a module outside the input directory
        if project.bundle.is_some() && rk.chance(1, 2) {
            let ext = SourceFile {
                path: "shared/ext.lua".to_owned(),
                body_index: rp.below(corpus::BODIES.len()),
                version: 0,
                requires: Vec::new(),
                use_alias: false,
                bare: false,
                via_source: false,
                marker_of: None,
            };
            let w = mk(&ext);
            let requirer = rp.below(world.sources.len());
            if !(project.bundle.as_deref() == Some("luau")
                && gen::is_module_folder_file(&world.sources[requirer].path))
            {
                world.sources[requirer].requires.push(w.path.clone());
            }
            world.externals.push(w);
        }
    }
    // a bundled module above the working directory becomes an editable external
    if let Some(pos) = project.other.iter().position(|e| e.path == "../outside/lib.lua") {
        project.other.remove(pos);
        let outside = SourceFile {
            path: "../outside/lib.lua".to_owned(),
            body_index: 0,
            version: 0,
            requires: Vec::new(),
            use_alias: false,
            bare: false,
            via_source: false,
            marker_of: None,
        };
        let w = mk(&outside);
        world.externals.push(w);
    }
    world.next_id = next_id;
    for (i, (path, _content)) in project.data.iter().enumerate() {
        let ext = path.rsplit('.').next().unwrap_or("txt");
        let kind: &'static str = match ext {
            "json" => "json",
            "yaml" => "yaml",
            "toml" => "toml",
            _ => "txt",
        };
        world.data.push((path.clone(), 0, i, kind));
    }

    // initial entries rendered from the world (so markers use world ids)
    let mut entries: Vec<FsEntry> = Vec::new();
    for s in world.all_lua() {
        entries.push(FsEntry {
            path: s.path.clone(),
            body: Body::Text(world.render(s)),
        });
    }
    for (path, content) in &project.data {
        entries.push(FsEntry {
            path: path.clone(),
            body: Body::Text(content.clone()),
        });
    }
    entries.extend(project.other.iter().cloned());
    for e in &invocation.extra_entries {
        if let Some(existing) = entries.iter_mut().find(|x| x.path == e.path) {
            existing.body = e.body.clone();
        } else {
            entries.push(e.clone());
        }
    }

    // the nested `.luaurc` (which re-defines the alias for the files below it) may not
    // exist at first: it is created later, together with a save of the file it governs
    let mut late_luaurc: Option<(String, Body)> = None;
    if world.aliases.len() >= 2 && rk.chance(1, 3) {
        let path = gen::join(&world.aliases[1].dir, ".luaurc");
        if let Some(pos) = entries.iter().position(|e| e.path == path) {
            let entry = entries.remove(pos);
            late_luaurc = Some((entry.path, entry.body));
        }
    }
    // open finding D16: with convert_require a required file that appears later does not
    // regenerate its requirers; most runs do not make required files disappear and come back
    let keep_required = world.sourcemap.is_some() && avoid("convert-missing-created");
    let is_required = |world: &World, path: &str| -> bool {
        world
            .all_lua()
            .iter()
            .any(|s| s.requires.iter().any(|r| r == path || r.starts_with(&format!("{}/", path))))
    };
    // ---- the history
    let n_ops = match rh.below(10) {
        0..=3 => rh.range(1, 3),
        4..=7 => rh.range(3, 7),
        _ => rh.range(6, knobs.max_ops.max(6)),
    };
    let mut ops: Vec<Op> = vec![Op::Pass];
    let mut generator_override: Option<String> = opts.generator_override.clone();
    let mut since_pass = 0usize;
    let mut only_removal_since_pass = true;
    let sim = backend == Backend::SimFs;
    let mut emitted = 0usize;
    let mut guard = 0;
    while emitted < n_ops && guard < 200 {
        guard += 1;
        let choice = rh.below(104); // 100.. = injected I/O faults (the `_` arm)
        let mut new_ops: Vec<Op> = Vec::new();
        let mut is_removal = false;
        match choice {
            0..=21 => {
                // edit a source (maybe break / fix it)
                if world.sources.is_empty() {
                    continue;
                }
                let i = rh.below(world.sources.len());
                let mut s = world.sources[i].clone();
                s.version += 1;
                if rh.chance(1, 3) {
                    s.body_index = rh.below(corpus::BODIES.len());
                }
                if s.broken {
                    s.broken = rh.chance(1, 3);
                } else if rh.chance(1, 8) {
                    s.broken = true;
                }
                let body = world.render(&s);
                world.sources[i] = s.clone();
                new_ops.push(Op::Edit {
                    path: s.path,
                    body: Body::Text(body),
                });
            }
            22..=29 if world.sourcemap.is_some() && rh.chance(1, 2) => {
                // the Rojo sourcemap changes (an instance gets another name): every file
                // whose requires were converted through it must be generated again
                let (path, version) = world.sourcemap.clone().unwrap();
                let version = version + 1;
                world.sourcemap = Some((path.clone(), version));
                let paths: Vec<String> = world.sources.iter().map(|s| s.path.clone()).collect();
                let text = gen::render_sourcemap(&paths, &path, &format!("Project_v{}", version))
                    .replace("\"className\":\"Folder\",\"children\":[{\"name\":\"", &format!("\"className\":\"Folder\",\"children\":[{{\"name\":\"v{}_", version));
                new_ops.push(Op::Edit {
                    path,
                    body: Body::Text(text),
                });
            }
            22..=29 if late_luaurc.is_some() && rh.chance(1, 2) => {
                // a `.luaurc` appears where none was: the files it governs now resolve the
                // alias differently (one of them is saved in the same batch, so that it is
                // processed again - nothing else tells darklua that a new file matters)
                let (path, body) = late_luaurc.take().unwrap();
                let dir = gen::parent(&path).to_owned();
                new_ops.push(Op::Add { path, body });
                let governed: Vec<usize> = (0..world.sources.len())
                    .filter(|i| world.sources[*i].use_alias && world.sources[*i].path.starts_with(&format!("{}/", dir)))
                    .collect();
                for i in governed {
                    let mut s = world.sources[i].clone();
                    s.version += 1;
                    let body = world.render(&s);
                    world.sources[i] = s.clone();
                    new_ops.push(Op::Edit {
                        path: s.path,
                        body: Body::Text(body),
                    });
                }
            }
            22..=29 if !world.aliases.is_empty() && rh.chance(1, 3) && !avoid("luaurc-edit") => {
                // the root .luaurc changes what `@lib` means (it now points where the nested
                // one points, or back): files using the alias must be generated again
                let root_dir = world.aliases[0].dir.clone();
                let nested_target = world.aliases[1].target.clone();
                let original_target = gen::join(&root_dir, "sub");
                let new_target = if world.aliases[0].target == original_target {
                    nested_target
                } else {
                    original_target
                };
                world.aliases[0].target = new_target.clone();
                let rel = new_target
                    .strip_prefix(&format!("{}/", root_dir))
                    .unwrap_or(&new_target)
                    .to_owned();
                new_ops.push(Op::Edit {
                    path: gen::join(&root_dir, ".luaurc"),
                    body: Body::Text(format!("{{ \"aliases\": {{ \"lib\": \"./{}\" }} }}\n", rel)),
                });
            }
            22..=29 => {
                // edit a module outside the input, or a data file
                if !world.externals.is_empty() && rh.chance(2, 3) {
                    let i = rh.below(world.externals.len());
                    let mut s = world.externals[i].clone();
                    s.version += 1;
                    if rh.chance(1, 8) {
                        s.broken = !s.broken;
                    }
                    let body = world.render(&s);
                    world.externals[i] = s.clone();
                    new_ops.push(Op::Edit {
                        path: s.path,
                        body: Body::Text(body),
                    });
                } else if !world.data.is_empty() {
                    let i = rh.below(world.data.len());
                    world.data[i].1 += 1;
                    let (path, version, d, kind) = world.data[i].clone();
                    let bodies: &[&str] = match kind {
                        "json" => corpus::DATA_JSON,
                        "yaml" => corpus::DATA_YAML,
                        "toml" => corpus::DATA_TOML,
                        _ => corpus::DATA_TXT,
                    };
                    let content =
                        corpus::render_data(*rh.pick(bodies), &format!("d{}_{}", d, version));
                    new_ops.push(Op::Edit {
                        path,
                        body: Body::Text(content),
                    });
                } else {
                    continue;
                }
            }
            30..=41 => {
                // add a source under the input directory
                if world.input_is_file {
                    continue;
                }
                let dir = *rh.pick(gen::SUB_DIRS);
                let stem = *rh.pick(&["n1", "n2", "new file", "init", "zz"]);
                let ext = *rh.pick(gen::EXTS);
                let path = gen::join(&gen::join(&world.input, dir), &format!("{}.{}", stem, ext));
                if world
                    .all_lua()
                    .iter()
                    .any(|s| s.path == path || s.path.starts_with(&format!("{}/", path)))
                {
                    continue;
                }
                let mut s = WSource {
                    path: path.clone(),
                    body_index: rh.below(corpus::BODIES.len()),
                    version: 0,
                    requires: Vec::new(),
                    broken: false,
                    id: world.next_id,
                    use_alias: false,
                    bare: false,
                };
                world.next_id += 1;
                let luau_init = world.config.bundle.as_deref() == Some("luau")
                    && gen::is_module_folder_file(&s.path);
                if world.config.bundle.is_some() && !world.sources.is_empty() && rh.chance(1, 2) && !luau_init {
                    let j = rh.below(world.sources.len());
                    if !world.sources[j].use_alias {
                        s.requires.push(world.sources[j].path.clone());
                    }
                }
                let body = world.render(&s);
                world.sources.push(s);
                new_ops.push(Op::Add {
                    path,
                    body: Body::Text(body),
                });
            }
            42..=49 => {
                // add a require between existing files (an edit of the requirer)
                if world.config.bundle.is_none() || world.sources.is_empty() {
                    continue;
                }
                let i = rh.below(world.sources.len());
                if world.config.bundle.as_deref() == Some("luau")
                    && gen::is_module_folder_file(&world.sources[i].path)
                {
                    continue;
                }
                let candidates: Vec<String> = world
                    .all_lua()
                    .iter()
                    .filter(|s| !s.use_alias)
                    .map(|s| s.path.clone())
                    .filter(|p| {
                        !world.sources[i].use_alias
                            && *p != world.sources[i].path
                            && !world.sources[i].requires.contains(p)
                            && !world.reaches(p, &world.sources[i].path)
                    })
                    .collect();
                // a file that writes its requires without extension only gets targets whose
                // stem is unique (otherwise the require would resolve to another file)
                let stem_of = |p: &str| -> String {
                    match p.rfind('.') {
                        Some(k) if k > p.rfind('/').map(|x| x + 1).unwrap_or(0) => p[..k].to_owned(),
                        _ => p.to_owned(),
                    }
                };
                let candidates: Vec<String> = if world.sources[i].bare {
                    let all: Vec<String> = world.all_lua().iter().map(|s| s.path.clone()).collect();
                    candidates
                        .into_iter()
                        .filter(|c| {
                            let stem = stem_of(c);
                            all.iter().filter(|p| stem_of(p) == stem).count() == 1
                                && !all.iter().any(|p| p.starts_with(&format!("{}/", stem)))
                        })
                        .collect()
                } else {
                    candidates
                };
                if candidates.is_empty() {
                    continue;
                }
                let to = rh.pick(&candidates).clone();
                let mut s = world.sources[i].clone();
                s.requires.push(to);
                s.version += 1;
                let body = world.render(&s);
                world.sources[i] = s.clone();
                new_ops.push(Op::Edit {
                    path: s.path,
                    body: Body::Text(body),
                });
            }
            50..=59 => {
                // remove a file
                if world.input_is_file || world.sources.len() < 2 {
                    continue;
                }
                if avoid("removal-alone") && since_pass == 0 {
                    // make sure something else happens in the same pass: edit first
                    let i = rh.below(world.sources.len());
                    let mut s = world.sources[i].clone();
                    s.version += 1;
                    let body = world.render(&s);
                    world.sources[i] = s.clone();
                    new_ops.push(Op::Edit {
                        path: s.path,
                        body: Body::Text(body),
                    });
                }
                let i = rh.below(world.sources.len());
                let path = world.sources[i].path.clone();
                if new_ops.iter().any(|o| matches!(o, Op::Edit { path: p, .. } if *p == path))
                    || protected.contains(&path)
                    || (keep_required && is_required(&world, &path))
                {
                    continue;
                }
                world.sources.remove(i);
                is_removal = true;
                new_ops.push(Op::RemoveFile { path });
            }
            60..=65 => {
                // remove a directory
                if world.input_is_file || !sim {
                    continue;
                }
                let mut dirs = world.dirs_with_sources();
                // ... or a directory that holds nothing but required data files
                for d in &world.data {
                    let dir = gen::parent(&d.0).to_owned();
                    if dir.len() > world.input.len()
                        && dir.starts_with(&world.input)
                        && !dirs.contains(&dir)
                    {
                        dirs.push(dir);
                    }
                }
                if dirs.is_empty() {
                    continue;
                }
                let dir = rh.pick(&dirs).clone();
                if protected.iter().any(|p| p.starts_with(&format!("{}/", dir)))
                    || (keep_required && is_required(&world, &dir))
                {
                    continue;
                }
                let remaining = world
                    .sources
                    .iter()
                    .filter(|s| !s.path.starts_with(&format!("{}/", dir)))
                    .count();
                if remaining == 0 {
                    continue;
                }
                if avoid("removal-alone") && since_pass == 0 {
                    let keep: Vec<usize> = (0..world.sources.len())
                        .filter(|i| !world.sources[*i].path.starts_with(&format!("{}/", dir)))
                        .collect();
                    let i = *rh.pick(&keep);
                    let mut s = world.sources[i].clone();
                    s.version += 1;
                    let body = world.render(&s);
                    world.sources[i] = s.clone();
                    new_ops.push(Op::Edit {
                        path: s.path,
                        body: Body::Text(body),
                    });
                }
                world
                    .sources
                    .retain(|s| !s.path.starts_with(&format!("{}/", dir)));
                world.data.retain(|d| !d.0.starts_with(&format!("{}/", dir)));
                is_removal = true;
                new_ops.push(Op::RemoveDir { path: dir });
            }
            66..=70 if sim && !world.input_is_file && rh.chance(1, 3) => {
                // rename a directory (requirers keep their now dangling require texts)
                let dirs = world.dirs_with_sources();
                if dirs.is_empty() {
                    continue;
                }
                let dir = rh.pick(&dirs).clone();
                let prefix = format!("{}/", dir);
                if protected.iter().any(|p| p.starts_with(&prefix))
                    || (keep_required && is_required(&world, &dir))
                    || world.data.iter().any(|d| d.0.starts_with(&prefix))
                    || world.aliases.iter().any(|a| a.dir.starts_with(&dir) || a.target.starts_with(&dir))
                {
                    continue;
                }
                let to = gen::join(gen::parent(&dir), &format!("moved{}", world.next_id));
                world.next_id += 1;
                if world.all_lua().iter().any(|s| s.path.starts_with(&format!("{}/", to))) {
                    continue;
                }
                for s in world.sources.iter_mut() {
                    if s.path.starts_with(&prefix) {
                        s.path = format!("{}/{}", to, &s.path[prefix.len()..]);
                    }
                }
                new_ops.push(Op::Rename { from: dir, to });
            }
            66..=70 => {
                // rename a file
                if world.input_is_file || world.sources.is_empty() || !sim {
                    continue;
                }
                let i = rh.below(world.sources.len());
                let from = world.sources[i].path.clone();
                if protected.contains(&from) || (keep_required && is_required(&world, &from)) {
                    continue;
                }
                let to = gen::join(
                    gen::parent(&from),
                    &format!("renamed{}.lua", world.sources[i].id),
                );
                if world.all_lua().iter().any(|s| s.path == to) {
                    continue;
                }
                // requirers keep their (now dangling) require text: that is what a user
                // renaming a file without updating callers produces
                world.sources[i].path = to.clone();
                new_ops.push(Op::Rename { from, to });
            }
            71..=86 if in_place => continue,
            71..=84 => {
                // configuration change
                let mut parts = world.config.clone();
                match rh.below(10) {
                    9 => {
                        // the same rules in another order (nothing else changes)
                        match parts.rules.clone() {
                            Some(mut rules) if rules.len() >= 2 => {
                                if rh.chance(1, 2) {
                                    rules.reverse();
                                } else {
                                    let i = rh.below(rules.len());
                                    let j = (i + 1 + rh.below(rules.len() - 1)) % rules.len();
                                    rules.swap(i, j);
                                }
                                parts.rules = Some(rules);
                            }
                            _ => {
                                // plain rule names whose order matters on most sources
                                parts.rules = Some(
                                    ORDER_SENSITIVE_RULES.iter().map(|r| format!("\"{}\"", r)).collect(),
                                );
                            }
                        }
                    }
                    8 => {
                        // only a property of convert_require changes
                        if parts.convert_sourcemap.is_some() && !world.aliases.is_empty() && rh.chance(1, 2) {
                            // whether `.luaurc` files are consulted by the current mode
                            parts.convert_no_luaurc = !parts.convert_no_luaurc;
                        } else if parts.convert_sourcemap.is_some() {
                            parts.convert_indexing = match parts.convert_indexing.as_deref() {
                                None => Some("wait_for_child".to_owned()),
                                Some("wait_for_child") => Some("property".to_owned()),
                                _ => None,
                            };
                        } else {
                            parts.rules = gen::gen_rules(&mut rh);
                        }
                    }
                    7 => {
                        // switch the bundle require mode (nothing else changes)
                        match parts.bundle.as_deref() {
                            Some("path") => parts.bundle = Some("luau".to_owned()),
                            Some("luau") => parts.bundle = Some("path".to_owned()),
                            _ => parts.rules = gen::gen_rules(&mut rh),
                        }
                    }
                    0 => parts.rules = gen::gen_rules(&mut rh),
                    1 => {
                        parts.generator = if rh.chance(1, 4) {
                            None
                        } else {
                            Some((*rh.pick(gen::GENERATORS)).to_owned())
                        }
                    }
                    2 | 3 => {
                        // filter-only change on one rule
                        if avoid("rule-filter-change") {
                            continue;
                        }
                        let mut rules = match parts.rules.clone() {
                            Some(r) if !r.is_empty() => r,
                            _ => vec![
                                "\"remove_comments\"".to_owned(),
                                "\"remove_spaces\"".to_owned(),
                            ],
                        };
                        let k = rh.below(rules.len());
                        rules[k] = rule_filter_variant(&mut rh, &rules[k]);
                        parts.rules = Some(rules);
                    }
                    4 => {
                        if avoid("top-level-filter-change") {
                            continue;
                        }
                        // top-level filters
                        if rh.chance(1, 2) {
                            parts.skip_files = if parts.skip_files.is_empty() {
                                vec![(*rh.pick(&["**/a.lua", "**/sub/**", "**/*.luau"])).to_owned()]
                            } else {
                                Vec::new()
                            };
                        } else {
                            parts.apply_to_files = if parts.apply_to_files.is_empty() {
                                vec![(*rh.pick(&["**/*.lua", "**/sub/**", "**/main.*"])).to_owned()]
                            } else {
                                Vec::new()
                            };
                        }
                    }
                    5 if parts.bundle.is_some() && rh.chance(1, 2) => {
                        // only an option of the bundle section changes
                        if rh.chance(1, 2) || parts.bundle_sources || !parts.bundle_luau_aliases.is_empty() {
                            parts.bundle_modules_identifier = match parts.bundle_modules_identifier.as_deref() {
                                None => Some("__VERIF_MODULES".to_owned()),
                                Some("__VERIF_MODULES") => Some("__OTHER".to_owned()),
                                _ => None,
                            };
                        } else {
                            parts.bundle_no_luaurc = !parts.bundle_no_luaurc;
                        }
                    }
                    5 => {
                        if parts.bundle.is_some() {
                            parts.bundle_excludes = if parts.bundle_excludes.is_empty() {
                                vec!["@lune/**".to_owned(), "@pkg/**".to_owned()]
                            } else if parts.bundle_excludes.len() == 2 && rh.chance(1, 2) {
                                // same set, other order
                                vec!["@pkg/**".to_owned(), "@lune/**".to_owned()]
                            } else {
                                Vec::new()
                            };
                        } else {
                            parts.rules = gen::gen_rules(&mut rh);
                        }
                    }
                    _ => {
                        // invalid configuration, later repaired by another change
                        if avoid("invalid-config") {
                            continue;
                        }
                        let text = (*rh.pick(&[
                            "{ rules: [ 'no_such_rule' ] }",
                            "{ rules: [",
                            "{ unknown_key: true }",
                        ]))
                        .to_owned();
                        match &world.config_path {
                            Some(path) => new_ops.push(Op::Edit {
                                path: path.clone(),
                                body: Body::Text(text),
                            }),
                            None => continue,
                        }
                        new_ops.push(Op::Pass);
                    }
                }
                if parts.to_text() == world.config.to_text() && new_ops.is_empty() {
                    continue;
                }
                world.config = parts;
                let text = world.config_text();
                match &world.config_path {
                    Some(path) => new_ops.push(Op::Edit {
                        path: path.clone(),
                        body: Body::Text(text),
                    }),
                    None if matches!(opts.config, ConfigSource::Default) => {
                        // the default configuration file was removed earlier: it comes back
                        world.config_path = Some(".darklua.json".to_owned());
                        new_ops.push(Op::Add {
                            path: ".darklua.json".to_owned(),
                            body: Body::Text(text),
                        });
                    }
                    None => new_ops.push(Op::ConfigObject { text }),
                }
            }
            85..=86 if knobs.layer == Layer::L1
                && matches!(opts.config, ConfigSource::Default)
                && world.sourcemap.is_none()
                && world.config.convert_path_aliases.is_none() =>
            {
                // life cycle of the default configuration files: removed (darklua falls back
                // to its default configuration), created again, or both names present at
                // once (an error for the whole pass until one of them goes away)
                let names = [".darklua.json", ".darklua.json5"];
                let text = world.config_text();
                match &world.config_path {
                    Some(path) if rh.chance(1, 2) => {
                        let path = path.clone();
                        world.config_path = None;
                        new_ops.push(Op::RemoveFile { path });
                    }
                    Some(path) => {
                        // the other default name appears too, then one of the two goes away
                        let other = if path == names[0] { names[1] } else { names[0] };
                        new_ops.push(Op::Add {
                            path: other.to_owned(),
                            body: Body::Text(text.clone()),
                        });
                        new_ops.push(Op::Pass);
                        let keep_other = rh.chance(1, 2);
                        let gone = if keep_other { path.clone() } else { other.to_owned() };
                        if keep_other {
                            world.config_path = Some(other.to_owned());
                        }
                        new_ops.push(Op::RemoveFile { path: gone });
                    }
                    None => {
                        let name = *rh.pick(&names);
                        world.config_path = Some(name.to_owned());
                        new_ops.push(Op::Add {
                            path: name.to_owned(),
                            body: Body::Text(text),
                        });
                    }
                }
            }
            85..=89 => {
                // touch
                if world.sources.is_empty() {
                    continue;
                }
                let i = rh.below(world.sources.len());
                new_ops.push(Op::Touch {
                    path: world.sources[i].path.clone(),
                });
            }
            99 if knobs.layer == Layer::L1 && !in_place && !graph_mode => {
                // the library caller changes the generator override of its options
                let current = generator_override.clone();
                let next = match rh.below(4) {
                    0 => None,
                    1 => Some("dense".to_owned()),
                    2 => Some("readable".to_owned()),
                    _ => Some("retain_lines".to_owned()),
                };
                if next == current {
                    continue;
                }
                generator_override = next.clone();
                new_ops.push(Op::GeneratorOverride { name: next });
            }
            99 if in_place => {
                // in place: the user puts back the text a source had before (undo): the file
                // on disk is the processed form of exactly that text, and must be again
                if world.sources.is_empty() {
                    continue;
                }
                let i = rh.below(world.sources.len());
                let s = world.sources[i].clone();
                let body = world.render(&s);
                new_ops.push(Op::Edit {
                    path: s.path,
                    body: Body::Text(body),
                });
            }
            98 => {
                // a configuration change meets an error under fail-fast (the pass may stop
                // early) and is taken back before the next pass
                if knobs.layer != Layer::L1
                    || in_place
                    || graph_mode
                    || world.sources.len() < 2
                    || world.sourcemap.is_some()
                    || (world.config_path.is_none() && !matches!(opts.config, ConfigSource::Object(_)))
                {
                    continue;
                }
                let old_text = world.config_text();
                let mut parts = world.config.clone();
                parts.rules = gen::gen_rules(&mut rh);
                let saved = std::mem::replace(&mut world.config, parts);
                let new_text = world.config_text();
                world.config = saved;
                if new_text == old_text {
                    continue;
                }
                if !world.sources.iter().any(|s| s.broken) {
                    let i = rh.below(world.sources.len());
                    let mut s = world.sources[i].clone();
                    s.version += 1;
                    s.broken = true;
                    let body = world.render(&s);
                    world.sources[i] = s.clone();
                    new_ops.push(Op::Edit {
                        path: s.path,
                        body: Body::Text(body),
                    });
                }
                if rh.chance(1, 2) {
                    // no configuration change: some sources are edited so that work is
                    // pending, the fail-fast pass may stop after having finished some of
                    // it, and afterwards something a finished item depends on changes
                    let healthy: Vec<usize> =
                        (0..world.sources.len()).filter(|i| !world.sources[*i].broken).collect();
                    for _ in 0..healthy.len().min(3) {
                        let i = *rh.pick(&healthy);
                        let mut s = world.sources[i].clone();
                        s.version += 1;
                        let body = world.render(&s);
                        world.sources[i] = s.clone();
                        new_ops.push(Op::Edit {
                            path: s.path,
                            body: Body::Text(body),
                        });
                    }
                    new_ops.push(Op::FailFastNext);
                    new_ops.push(Op::Pass);
                    let required: Vec<usize> = (0..world.sources.len())
                        .filter(|i| !world.sources[*i].broken && is_required(&world, &world.sources[*i].path))
                        .collect();
                    if !required.is_empty() {
                        let i = *rh.pick(&required);
                        let mut s = world.sources[i].clone();
                        s.version += 1;
                        let body = world.render(&s);
                        world.sources[i] = s.clone();
                        new_ops.push(Op::Edit {
                            path: s.path,
                            body: Body::Text(body),
                        });
                    }
                } else {
                    let set_config = |text: String| match &world.config_path {
                        Some(path) => Op::Edit {
                            path: path.clone(),
                            body: Body::Text(text),
                        },
                        None => Op::ConfigObject { text },
                    };
                    new_ops.push(set_config(new_text));
                    new_ops.push(Op::FailFastNext);
                    new_ops.push(Op::Pass);
                    new_ops.push(set_config(old_text));
                }
            }
            97 => {
                // a module outside the input that nothing required at start-up: created,
                // required by an edit of a source, processed, then edited (the watcher has
                // to extend its set of extra watched files after *every* pass)
                if world.config.bundle.is_none() || world.sources.is_empty() {
                    continue;
                }
                let eligible: Vec<usize> = (0..world.sources.len())
                    .filter(|i| {
                        let s = &world.sources[*i];
                        !s.use_alias
                            && !s.bare
                            && !s.broken
                            && !(world.config.bundle.as_deref() == Some("luau")
                                && gen::is_module_folder_file(&s.path))
                    })
                    .collect();
                if eligible.is_empty() {
                    continue;
                }
                let i = *rh.pick(&eligible);
                let id = world.next_id;
                world.next_id += 1;
                let mut ext = WSource {
                    path: format!("shared/late_{}.lua", id),
                    body_index: rh.below(corpus::BODIES.len()),
                    version: 0,
                    requires: Vec::new(),
                    broken: false,
                    id,
                    use_alias: false,
                    bare: false,
                };
                new_ops.push(Op::Add {
                    path: ext.path.clone(),
                    body: Body::Text(world.render(&ext)),
                });
                let mut s = world.sources[i].clone();
                s.requires.push(ext.path.clone());
                s.version += 1;
                let body = world.render(&s);
                world.sources[i] = s.clone();
                new_ops.push(Op::Edit {
                    path: s.path,
                    body: Body::Text(body),
                });
                new_ops.push(Op::Pass);
                ext.version += 1;
                new_ops.push(Op::Edit {
                    path: ext.path.clone(),
                    body: Body::Text(world.render(&ext)),
                });
                world.externals.push(ext);
            }
            96 => {
                // a required `x.lua` gets a higher-priority sibling `x.luau`, or is itself
                // renamed to `x.luau` (requires written without extension re-resolve)
                if world.input_is_file || avoid("candidate-shadowing") {
                    continue;
                }
                let targets: Vec<String> = world
                    .sources
                    .iter()
                    .filter(|s| s.bare)
                    .flat_map(|s| s.requires.clone())
                    .filter(|t| t.ends_with(".lua") && world.sources.iter().any(|x| x.path == *t))
                    .collect();
                if targets.is_empty() {
                    continue;
                }
                let target = rh.pick(&targets).clone();
                let sibling = format!("{}u", target);
                if world.all_lua().iter().any(|s| s.path == sibling) {
                    continue;
                }
                if rh.chance(1, 2) {
                    let s = WSource {
                        path: sibling.clone(),
                        body_index: rh.below(corpus::BODIES.len()),
                        version: 0,
                        requires: Vec::new(),
                        broken: false,
                        id: world.next_id,
                        use_alias: false,
                        bare: false,
                    };
                    world.next_id += 1;
                    let body = world.render(&s);
                    world.sources.push(s);
                    new_ops.push(Op::Add {
                        path: sibling,
                        body: Body::Text(body),
                    });
                } else {
                    if !sim {
                        continue;
                    }
                    for s in world.sources.iter_mut() {
                        if s.path == target {
                            s.path = sibling.clone();
                        }
                        for r in s.requires.iter_mut() {
                            if *r == target {
                                *r = sibling.clone();
                            }
                        }
                    }
                    new_ops.push(Op::Rename {
                        from: target,
                        to: sibling,
                    });
                }
            }
            94 => {
                // the output of a removed source cannot be removed (one failing `remove`)
                if world.input_is_file
                    || world.sources.len() < 2
                    || !sim
                    || !knobs.allow_faults
                    || in_place
                    || real
                {
                    continue;
                }
                let i = rh.below(world.sources.len());
                let path = world.sources[i].path.clone();
                if protected.contains(&path) || (keep_required && is_required(&world, &path)) {
                    continue;
                }
                let mirror = match path.strip_prefix(&format!("{}/", world.input)) {
                    Some(rel) => gen::join(&world.output, rel),
                    None => continue,
                };
                // something else happens in the same pass so that work is pending
                let j = (i + 1) % world.sources.len();
                let mut s = world.sources[j].clone();
                s.version += 1;
                let body = world.render(&s);
                world.sources[j] = s.clone();
                world.sources.remove(i);
                new_ops.push(Op::Edit {
                    path: s.path,
                    body: Body::Text(body),
                });
                new_ops.push(Op::RemoveFile { path });
                new_ops.push(Op::Faults {
                    rules: vec![FaultRule {
                        kind: FaultKind::RemoveEacces,
                        path: mirror,
                        nth: Some(0),
                        epoch: None,
                    }],
                    renotify: Vec::new(),
                });
                new_ops.push(Op::Pass);
                new_ops.push(Op::Pass);
            }
            95 => {
                // a file that is required but missing (removed or renamed away) comes back
                if world.config.bundle.is_none() || keep_required {
                    continue;
                }
                let existing: BTreeSet<String> =
                    world.all_lua().iter().map(|s| s.path.clone()).collect();
                let dangling: Vec<String> = world
                    .all_lua()
                    .iter()
                    .flat_map(|s| s.requires.clone())
                    .filter(|r| gen::is_lua(r) && !existing.contains(r) && r.starts_with(&format!("{}/", world.input)))
                    .collect();
                if dangling.is_empty() || world.input_is_file {
                    continue;
                }
                let path = rh.pick(&dangling).clone();
                // ... by renaming another file into its place (the watcher reports a rename
                // as two removals followed by a new collection of work) ...
                let movable: Vec<usize> = (0..world.sources.len())
                    .filter(|i| {
                        let s = &world.sources[*i];
                        s.requires.is_empty()
                            && !s.use_alias
                            && !s.broken
                            && !protected.contains(&s.path)
                            && !is_required(&world, &s.path)
                    })
                    .collect();
                if sim && !movable.is_empty() && rh.chance(1, 2) {
                    let i = *rh.pick(&movable);
                    let from = world.sources[i].path.clone();
                    world.sources[i].path = path.clone();
                    new_ops.push(Op::Rename { from, to: path });
                } else {
                    // ... or by being written again
                    let s = WSource {
                        path: path.clone(),
                        body_index: rh.below(corpus::BODIES.len()),
                        version: 0,
                        requires: Vec::new(),
                        broken: false,
                        id: world.next_id,
                        use_alias: false,
                        bare: false,
                    };
                    world.next_id += 1;
                    let body = world.render(&s);
                    world.sources.push(s);
                    new_ops.push(Op::Add {
                        path,
                        body: Body::Text(body),
                    });
                }
            }
            90..=93 => {
                // delete and re-create before the next pass
                // (a single-file input only at L1: under a real watcher the inode watch on
                // the entry dies with the file, a lost notification)
                if (world.input_is_file && knobs.layer != Layer::L1)
                    || world.sources.is_empty()
                    || avoid("delete-recreate")
                {
                    continue;
                }
                let i = rh.below(world.sources.len());
                if protected.contains(&world.sources[i].path)
                    || (keep_required && is_required(&world, &world.sources[i].path))
                {
                    continue;
                }
                let mut s = world.sources[i].clone();
                s.version += 1;
                let body = world.render(&s);
                world.sources[i] = s.clone();
                new_ops.push(Op::RemoveFile {
                    path: s.path.clone(),
                });
                new_ops.push(Op::Add {
                    path: s.path,
                    body: Body::Text(body),
                });
            }
            _ => {
                // injected I/O faults during the next pass, then recovery
                if !knobs.allow_faults || in_place || !sim || world.sources.is_empty() || real {
                    continue;
                }
                let i = rf.below(world.sources.len());
                let mut s = world.sources[i].clone();
                s.version += 1;
                let body = world.render(&s);
                world.sources[i] = s.clone();
                let mirror = if world.input_is_file {
                    None
                } else {
                    s.path
                        .strip_prefix(&format!("{}/", world.input))
                        .map(|rel| gen::join(&world.output, rel))
                };
                let rule = match rf.below(if mirror.is_some() { 6 } else { 3 }) {
                    0 => FaultRule {
                        kind: FaultKind::GetNotFound,
                        path: s.path.clone(),
                        nth: Some(0),
                        epoch: None,
                    },
                    1 => FaultRule {
                        kind: FaultKind::GetEio,
                        path: s.path.clone(),
                        nth: Some(0),
                        epoch: None,
                    },
                    2 => FaultRule {
                        kind: FaultKind::GetEacces,
                        path: s.path.clone(),
                        nth: None,
                        epoch: None,
                    },
                    3 => FaultRule {
                        kind: FaultKind::WriteEacces,
                        path: mirror.clone().unwrap(),
                        nth: Some(0),
                        epoch: None,
                    },
                    4 => FaultRule {
                        kind: FaultKind::WriteEnospc,
                        path: mirror.clone().unwrap(),
                        nth: Some(0),
                        epoch: None,
                    },
                    _ => FaultRule {
                        kind: FaultKind::WriteTorn,
                        path: mirror.clone().unwrap(),
                        nth: Some(0),
                        epoch: None,
                    },
                };
                new_ops.push(Op::Edit {
                    path: s.path.clone(),
                    body: Body::Text(body),
                });
                // recovery: the next save reports the file again
                new_ops.push(Op::Faults {
                    rules: vec![rule],
                    renotify: vec![s.path],
                });
                new_ops.push(Op::Pass);
                new_ops.push(Op::Pass);
            }
        }
        if new_ops.is_empty() {
            continue;
        }
        let ends_with_pass = matches!(new_ops.last(), Some(Op::Pass));
        for op in new_ops {
            if matches!(op, Op::Pass) {
                since_pass = 0;
                only_removal_since_pass = true;
            } else {
                since_pass += 1;
                if !is_removal {
                    only_removal_since_pass = false;
                }
            }
            ops.push(op);
        }
        emitted += 1;
        let _ = only_removal_since_pass;
        if knobs.layer == Layer::L2 && !ends_with_pass {
            // simulated time between user operations: inside or across debounce windows
            let ms = *rh.pick(&[0u64, 1, 100, 399, 401, 2000]);
            if ms > 0 {
                ops.push(Op::Wait { ms });
            }
        }
        if !ends_with_pass && rh.chance(1, 2) {
            ops.push(Op::Pass);
            since_pass = 0;
            only_removal_since_pass = true;
        }
    }
    if !matches!(ops.last(), Some(Op::Pass)) {
        ops.push(Op::Pass);
    }

    let mut ops = ops;
    if knobs.real_lib {
        // another program creates folders inside the output location, right before
        // sources go away (when darklua prunes what it thinks it generated)
        let input = gen::normalize(&opts.input);
        let region = opts.output.as_deref().map(gen::normalize).unwrap_or_default();
        let input_is_dir = entries.iter().any(|e| e.path.starts_with(&format!("{}/", input)));
        if input_is_dir && !region.is_empty() && region != input {
            let mut rd = Rng::stream(seed, "foreign-dirs");
            let mut with_foreign: Vec<Op> = Vec::new();
            let mut counter = 0;
            for op in ops {
                let gone = match &op {
                    Op::RemoveFile { path } => Some((path.clone(), true)),
                    Op::RemoveDir { path } => Some((path.clone(), false)),
                    Op::Rename { from, .. } => Some((from.clone(), gen::is_lua(from))),
                    _ => None,
                };
                if let Some((path, is_file)) = gone {
                    if let Some(rel) = path.strip_prefix(&format!("{}/", input)) {
                        if rd.chance(1, 2) {
                            let rel_dir = if is_file { gen::parent(rel) } else { rel };
                            let dir = if rel_dir.is_empty() { region.clone() } else { gen::join(&region, rel_dir) };
                            counter += 1;
                            let name = if rd.chance(1, 2) {
                                format!("late-foreign-{}", counter)
                            } else {
                                format!("late-foreign-{}/assets/images", counter)
                            };
                            with_foreign.push(Op::ForeignDir { path: gen::join(&dir, &name) });
                        }
                    }
                }
                with_foreign.push(op);
            }
            ops = with_foreign;
        }
    }
    let backend = if knobs.real_lib { Backend::RealLib } else { backend };

    C10Scenario {
        seed,
        layer: knobs.layer,
        backend,
        entries,
        opts,
        ops,
        use_add_source: knobs.layer == Layer::L1 && rk.chance(1, 4),
        walk_seed: ro.next_u64(),
        hash_seed: ro.next_u64(),
    }
}

// ------------------------------------------------------------------ exhaustive stratum

/// The alphabet of the exhaustive short-history stratum over one fixed bundle project
/// (DESIGN.md §4.2). Every operation is concrete; `stamp` makes edited content unique.
fn enum_op(kind: usize, stamp: usize) -> Vec<Op> {
    let lua = |marker: &str, requires: &[&str]| {
        let mut text = String::new();
        for (i, r) in requires.iter().enumerate() {
            text.push_str(&format!("local dep{} = require(\"{}\")\nuse(dep{})\n", i, r, i));
        }
        text.push_str(&format!("mark(\"{}\")\nreturn {{ \"{}\" }}\n", marker, marker));
        Body::Text(text)
    };
    let m = |name: &str| format!("{}_{}", name, stamp);
    match kind {
        0 => vec![Op::Edit { path: "src/main.lua".into(), body: lua(&m("main"), &["./lib/a.lua", "./lib/b.lua"]) }],
        1 => vec![Op::Edit { path: "src/lib/b.lua".into(), body: lua(&m("b"), &[]) }],
        2 => vec![Op::Edit { path: "src/other.lua".into(), body: lua(&m("other"), &[]) }],
        3 => vec![Op::Edit { path: "src/lib/a.lua".into(), body: Body::Text(format!("local = {}\n", stamp)) }],
        4 => vec![Op::Edit { path: "src/lib/a.lua".into(), body: lua(&m("a"), &["./b.lua"]) }],
        5 => vec![Op::Add { path: "src/new.lua".into(), body: lua(&m("new"), &["./lib/b.lua"]) }],
        6 => vec![Op::Add { path: "src/lib/deep/c.lua".into(), body: lua(&m("c"), &[]) }],
        7 => vec![Op::RemoveFile { path: "src/other.lua".into() }],
        8 => vec![Op::RemoveFile { path: "src/lib/b.lua".into() }],
        9 => vec![Op::RemoveDir { path: "src/lib".into() }],
        10 => vec![Op::Edit { path: ".darklua.json".into(), body: Body::Text(format!("{{\"bundle\":{{\"require_mode\":\"path\"}},\"rules\":[\"remove_comments\",{{\"rule\":\"append_text_comment\",\"text\":\"v{}\"}}]}}", stamp)) }],
        11 => vec![Op::Edit { path: ".darklua.json".into(), body: Body::Text("{\"bundle\":{\"require_mode\":\"path\"},\"rules\":[{\"rule\":\"remove_spaces\",\"skip_files\":[\"**/other.lua\"]},\"remove_comments\"]}".into()) }],
        12 => vec![Op::Edit { path: ".darklua.json".into(), body: Body::Text("{\"bundle\":{\"require_mode\":\"path\"},\"generator\":\"dense\",\"rules\":[]}".into()) }],
        13 => vec![Op::Touch { path: "src/main.lua".into() }],
        14 => vec![Op::Add { path: "src/lib/b.lua".into(), body: lua(&m("b_again"), &[]) }],
        _ => vec![Op::Rename { from: "src/other.lua".into(), to: "src/lib/moved.lua".into() }],
    }
}

/// Rules without properties that do not commute on the corpus (used by the
/// "same rules, other order" configuration change).
const ORDER_SENSITIVE_RULES: &[&str] = &[
    "remove_function_call_parens",
    "compute_expression",
    "rename_variables",
    "group_local_assignment",
    "remove_unused_variable",
    "convert_index_to_field",
];

pub const ENUM_ALPHABET: usize = 16;

/// Number of enumerated histories with at most `max_len` operations (each operation is
/// followed by a pass or not; the history always ends with a pass).
pub fn enum_count(max_len: usize) -> usize {
    let mut total = 0;
    for len in 1..=max_len {
        total += ENUM_ALPHABET.pow(len as u32) * (1 << (len - 1));
    }
    total
}

/// The `index`-th history of the exhaustive stratum (canonical order: by length, then
/// by operation tuple, then by pass placement).
pub fn enumerated(mut index: usize, max_len: usize) -> Option<C10Scenario> {
    let mut len = 1;
    loop {
        if len > max_len {
            return None;
        }
        let block = ENUM_ALPHABET.pow(len as u32) * (1 << (len - 1));
        if index < block {
            break;
        }
        index -= block;
        len += 1;
    }
    let pass_bits = index % (1 << (len - 1));
    let mut tuple = index / (1 << (len - 1));
    let mut kinds = Vec::new();
    for _ in 0..len {
        kinds.push(tuple % ENUM_ALPHABET);
        tuple /= ENUM_ALPHABET;
    }
    kinds.reverse();
    let lua = |marker: &str, requires: &[&str]| {
        let mut text = String::new();
        for (i, r) in requires.iter().enumerate() {
            text.push_str(&format!("local dep{} = require(\"{}\")\nuse(dep{})\n", i, r, i));
        }
        text.push_str(&format!("-- {}\nmark(\"{}\")\nreturn {{ \"{}\" }}\n", marker, marker, marker));
        Body::Text(text)
    };
    let entries = vec![
        FsEntry { path: "src/main.lua".into(), body: lua("main_0", &["./lib/a.lua", "./lib/b.lua"]) },
        FsEntry { path: "src/lib/a.lua".into(), body: lua("a_0", &["./b.lua"]) },
        FsEntry { path: "src/lib/b.lua".into(), body: lua("b_0", &[]) },
        FsEntry { path: "src/other.lua".into(), body: lua("other_0", &[]) },
        FsEntry { path: "src/notes.txt".into(), body: Body::Text("not lua\n".into()) },
        FsEntry { path: ".darklua.json".into(), body: Body::Text("{\"bundle\":{\"require_mode\":\"path\"},\"rules\":[\"remove_comments\"]}".into()) },
        FsEntry { path: "out/foreign.txt".into(), body: Body::Text("foreign\n".into()) },
        FsEntry { path: "out/keep".into(), body: Body::Dir },
    ];
    let mut ops = vec![Op::Pass];
    for (i, kind) in kinds.iter().enumerate() {
        ops.extend(enum_op(*kind, i + 1));
        let pass_here = i + 1 == len || (pass_bits >> i) & 1 == 1;
        if pass_here {
            ops.push(Op::Pass);
        }
    }
    Some(C10Scenario {
        seed: index as u64,
        layer: Layer::L1,
        backend: Backend::SimFs,
        entries,
        opts: OptSpec {
            input: "src".into(),
            output: Some("out".into()),
            config: ConfigSource::Default,
            fail_fast: false,
            generator_override: None,
            include_deps: None,
        },
        ops,
        use_add_source: false,
        walk_seed: 0,
        hash_seed: 0,
    })
}
