//! C10 — incremental reprocessing equals processing from scratch (DESIGN.md §4).
//! Layer L1: one long-lived `WorkerTree` driven through its notification API by a
//! simulated user and a hard-coded watch protocol; the oracle after every pass is a
//! fresh run over a copy of the current inputs.

use std::{
    collections::{BTreeMap, BTreeSet},
    path::Path,
    sync::Arc,
};

use darklua_core::{Resources, WorkerTree};

use crate::{
    c11::io_signature,
    exec::{self, Outcome, Store},
    gen,
    model::{Backend, Body, C10Scenario, ConfigSource, FsEntry, Layer, Op, OptSpec, Violation},
    rng::hash_bytes,
    simfs::{FaultRule, OpKind, OpRec, SimFs, Snapshot},
};

const P: &str = "C10";

#[derive(Clone, Debug, Default)]
pub struct RunStats {
    pub executions: u64,
    pub passes: u64,
    pub fresh_runs: u64,
    pub ops: BTreeMap<String, u64>,
    pub faults_fired: BTreeMap<String, u64>,
    pub probes: BTreeMap<String, u64>,
    pub io_signature: u64,
    pub nontrivial: bool,
    pub relaxed_sources: u64,
    pub sim_ms: u64,
    pub idle_passes: u64,
    pub idle_pass_writes: u64,
    pub idle_pass_removes: u64,
    /// in-place comparisons: files compared / left out because processing them twice
    /// gives something else
    pub in_place_compared: u64,
    pub in_place_not_idempotent: u64,
}

fn budget_for(files: usize) -> u64 {
    600 + 64 * (files as u64 + 2) * 16
}

pub fn op_kind(op: &Op) -> &'static str {
    match op {
        Op::Edit { .. } => "Edit",
        Op::Touch { .. } => "Touch",
        Op::Add { .. } => "Add",
        Op::RemoveFile { .. } => "RemoveFile",
        Op::RemoveDir { .. } => "RemoveDir",
        Op::Rename { .. } => "Rename",
        Op::ConfigObject { .. } => "ConfigObject",
        Op::Pass => "Pass",
        Op::FailFastNext => "FailFastNext",
        Op::ForeignDir { .. } => "ForeignDir",
        Op::GeneratorOverride { .. } => "GeneratorOverride",
        Op::TamperOutput { .. } => "TamperOutput",
        Op::Wait { .. } => "Wait",
        Op::Faults { .. } => "Faults",
    }
}

/// The incremental system under test: what `FileWatcher` holds.
struct Incremental {
    tree: Option<WorkerTree>,
    /// the first pass goes through the public `WorkerTree` API (`default`, `collect_work`,
    /// `process`) instead of `darklua_core::process`, as an embedding program may do
    api_only: bool,
}

impl Incremental {
    /// `FileWatcher::run_worker_tree`
    fn pass(&mut self, resources: &Resources, opts: &OptSpec) -> Outcome {
        let options = match exec::build_options(opts) {
            Ok(options) => options,
            Err(err) => return Outcome::BatchErr(format!("harness: {}", err)),
        };
        crate::include_rule::reset_loop_guard();
        let result = exec::catch(|| {
            if let Some(tree) = self.tree.as_mut() {
                tree.process(resources, options).map(|()| None)
            } else if self.api_only {
                let mut tree = WorkerTree::default();
                tree.collect_work(resources, &options)
                    .and_then(|()| tree.process(resources, options))
                    .map(|()| Some(tree))
            } else {
                darklua_core::process(resources, options).map(Some)
            }
        });
        match result {
            Err(panic) => Outcome::Panic(panic),
            Ok(Err(err)) => Outcome::BatchErr(err.to_string()),
            Ok(Ok(new_tree)) => {
                if let Some(tree) = new_tree {
                    self.tree = Some(tree);
                }
                let tree = self.tree.as_ref().unwrap();
                let success = tree.success_count();
                let mut errors: Vec<String> = tree
                    .collect_errors()
                    .iter()
                    .map(|e| exec::canon_text(&e.to_string(), opts))
                    .collect();
                errors.sort();
                Outcome::Done { errors, success }
            }
        }
    }
}

/// No output location, or the input itself as output location: sources are rewritten
/// where they are.
pub fn is_in_place(opts: &OptSpec) -> bool {
    match &opts.output {
        None => true,
        Some(output) => gen::normalize(output) == gen::normalize(&opts.input),
    }
}

pub fn output_dir(opts: &OptSpec) -> String {
    gen::normalize(opts.output.as_deref().unwrap_or("out"))
}

fn is_under(path: &str, dir: &str) -> bool {
    path == dir || path.starts_with(&format!("{}/", dir))
}

/// Everything below `dir`, plus `dir` itself when it is a file (single-file output).
fn sub_snapshot(snapshot: &Snapshot, dir: &str) -> Snapshot {
    snapshot
        .iter()
        .filter(|(p, c)| is_under(p, dir) && (p.as_str() != dir || c.is_some()))
        .map(|(p, c)| (p.clone(), c.clone()))
        .collect()
}

/// The region darklua may write to: the output directory, or just the output file when
/// the input is a single file.
fn output_region(opts: &OptSpec, input_is_file: bool) -> String {
    let _ = input_is_file;
    output_dir(opts)
}

fn show_bytes(bytes: &Option<Vec<u8>>) -> String {
    match bytes {
        None => "<dir>".to_owned(),
        Some(b) => {
            let s = String::from_utf8_lossy(b);
            let s: String = s.chars().take(140).collect();
            format!("{:?}", s)
        }
    }
}

fn panic_class(msg: &str) -> String {
    format!("panic@{}", msg.rsplit(" at ").next().unwrap_or("?"))
}

/// Build the store for a fresh run: current inputs and configuration, and an output
/// location holding exactly the foreign content that existed before the first pass.
fn fresh_entries(current: &Snapshot, region: &str, foreign: &Snapshot) -> Vec<FsEntry> {
    let mut entries: Vec<FsEntry> = Vec::new();
    for (path, content) in current {
        if is_under(path, region) {
            continue;
        }
        entries.push(FsEntry {
            path: path.clone(),
            body: match content {
                Some(bytes) => Body::from_bytes(bytes),
                None => Body::Dir,
            },
        });
    }
    for (path, content) in foreign {
        entries.push(FsEntry {
            path: path.clone(),
            body: match content {
                Some(bytes) => Body::from_bytes(bytes),
                None => Body::Dir,
            },
        });
    }
    entries
}

/// The reference: a fresh `process` over a fresh store **on a thread of its own**, so that
/// nothing that survives in thread-locals from the incremental passes (or from an earlier
/// reference run) can leak into it. Returns the outcome and the resulting snapshot.
fn fresh_run(
    backend: Backend,
    entries: Vec<FsEntry>,
    opts: OptSpec,
    hash_seed: u64,
) -> Result<(Outcome, Snapshot), String> {
    let result = exec::on_carrier(hash_seed, move || {
        let store = Store::new(backend, 0, &entries);
        store.enter();
        let resources = store.resources();
        let outcome = exec::fresh_process(&resources, &opts);
        (outcome, store.snapshot())
    });
    // real file system: back into the scratch directory of the history (which holds
    // `CWD_LOCK`; histories of the other back ends must not touch the working directory)
    if backend == Backend::RealLib {
        exec::go_home();
    }
    result
}

/// Holds the process-wide working directory for one history over the real file system.
struct HomeGuard<'a>(Option<std::sync::MutexGuard<'a, ()>>);

impl Drop for HomeGuard<'_> {
    fn drop(&mut self) {
        if self.0.is_some() {
            exec::set_home(None);
        }
    }
}

struct PassRecord {
    writes: Vec<String>,
    removes: Vec<String>,
}

fn summarize(log: &[OpRec]) -> PassRecord {
    let mut writes = Vec::new();
    let mut removes = Vec::new();
    for rec in log {
        match rec.op {
            OpKind::Write => writes.push(rec.path.clone()),
            OpKind::Remove => removes.push(rec.path.clone()),
            _ => {}
        }
    }
    PassRecord { writes, removes }
}

/// The Lua input file each error text mentions first (however the message quotes it).
fn error_sources(errors: &[String], inputs: &Snapshot) -> BTreeSet<String> {
    let mut out = BTreeSet::new();
    for text in errors {
        let mut best: Option<((usize, isize), String)> = None;
        for (path, content) in inputs {
            if content.is_none() || !gen::is_lua(path) {
                continue;
            }
            if let Some(pos) = crate::c11::mention(text, path) {
                let key = (pos, -(path.len() as isize));
                if best.as_ref().map(|(k, _)| key < *k).unwrap_or(true) {
                    best = Some((key, path.clone()));
                }
            }
        }
        if let Some((_, path)) = best {
            out.insert(path);
        }
    }
    out
}

pub fn check(scn: &C10Scenario, stats: &mut RunStats) -> Result<Vec<Violation>, String> {
    let scn = scn.clone();
    let result = exec::on_carrier(scn.hash_seed, move || {
        let mut stats = RunStats::default();
        let violations = match scn.layer {
            Layer::L1 => run_l1(&scn, &mut stats),
            Layer::L2 => crate::l2::run_l2(&scn, &mut stats),
            Layer::LW => crate::lw::run_lw(&scn, &mut stats),
        };
        for (k, v) in exec::take_probes() {
            *stats.probes.entry(k.to_owned()).or_insert(0) += v;
        }
        (violations, stats)
    })?;
    *stats = result.1;
    Ok(result.0)
}

pub struct Oracle {
    pub backend: Backend,
    pub region: String,
    pub foreign: Snapshot,
    /// digests of everything darklua wrote per output path during this history
    pub written: BTreeMap<String, BTreeSet<u64>>,
    /// output paths whose removal was faulted (may legitimately stay)
    pub remove_faulted: BTreeSet<String>,
    pub removed_sources: BTreeSet<String>,
    /// ancestors of the output location that did not exist before the first pass:
    /// darklua creates them and may prune them again, they count as output
    pub created_ancestors: BTreeSet<String>,
    pub fresh_counter: u64,
}

impl Oracle {
    pub fn new(backend: Backend, store: &Store, region: &str) -> Oracle {
        let initial = store.snapshot();
        let mut foreign = sub_snapshot(&initial, region);
        if let Some(c) = initial.get(region) {
            foreign.insert(region.to_owned(), c.clone());
        }
        let mut created_ancestors = BTreeSet::new();
        let mut p = gen::parent(region);
        while !p.is_empty() {
            if !initial.contains_key(p) {
                created_ancestors.insert(p.to_owned());
            }
            p = gen::parent(p);
        }
        Oracle {
            backend,
            region: region.to_owned(),
            foreign,
            written: BTreeMap::new(),
            remove_faulted: BTreeSet::new(),
            removed_sources: BTreeSet::new(),
            created_ancestors,
            fresh_counter: 0,
        }
    }

    /// The part of a snapshot that counts as output.
    fn view(&self, snapshot: &Snapshot) -> Snapshot {
        let mut out = sub_snapshot(snapshot, &self.region);
        for a in &self.created_ancestors {
            if let Some(c) = snapshot.get(a) {
                out.insert(a.clone(), c.clone());
            }
        }
        if let Some(None) = snapshot.get(&self.region) {
            if !self.foreign.contains_key(&self.region) {
                out.insert(self.region.clone(), None);
            }
        }
        out
    }

    pub fn note_log(&mut self, log: &[OpRec]) {
        for rec in log {
            if rec.op == OpKind::Write {
                if let Some(d) = rec.digest {
                    self.written.entry(rec.path.clone()).or_default().insert(d);
                }
            }
            if rec.op == OpKind::Remove && rec.fault.is_some() {
                self.remove_faulted.insert(rec.path.clone());
            }
        }
    }

    /// Compare the state after an incremental pass with a fresh run.
    /// `faulty_pass`: injected I/O faults were active during this pass.
    #[allow(clippy::too_many_arguments)]
    pub fn compare(
        &mut self,
        store: &Store,
        opts: &OptSpec,
        outcome: &Outcome,
        pass_log: &[OpRec],
        pass_index: usize,
        faulty_pass: bool,
        stats: &mut RunStats,
        violations: &mut Vec<Violation>,
    ) {
        let at = format!("pass #{}", pass_index);
        if let Outcome::Panic(msg) = outcome {
            violations.push(Violation::new(
                P,
                "bounded",
                &panic_class(msg),
                format!("{}: the worker panicked: {}", at, msg),
            ));
            return;
        }
        let record = summarize(pass_log);
        // nothing outside the output region is ever written or removed
        for path in record.writes.iter().chain(record.removes.iter()) {
            let pruned_ancestor =
                self.created_ancestors.contains(path) && record.removes.contains(path);
            if !is_under(path, &self.region) && !pruned_ancestor {
                violations.push(Violation::new(
                    P,
                    "equal",
                    "write-outside-output",
                    format!("{}: `{}` written/removed outside the output location", at, path),
                ));
            }
        }
        let current = store.snapshot();
        let mut inputs = current.clone();
        for a in &self.created_ancestors {
            inputs.remove(a);
        }
        let entries = fresh_entries(&inputs, &self.region, &self.foreign);
        self.fresh_counter += 1;
        let (fresh_outcome, fresh_snapshot) = match fresh_run(
            self.backend,
            entries,
            opts.clone(),
            crate::rng::mix(0xF5E5, self.fresh_counter),
        ) {
            Ok(result) => result,
            Err(msg) => (Outcome::Panic(msg), Snapshot::new()),
        };
        stats.fresh_runs += 1;
        stats.executions += 1;
        if let Outcome::Panic(msg) = &fresh_outcome {
            violations.push(Violation::new(
                P,
                "bounded",
                &panic_class(msg),
                format!("{}: the fresh reference run panicked: {}", at, msg),
            ));
            return;
        }
        if faulty_pass {
            // only `bounded` and confinement are demanded while faults flow; equality is
            // demanded after recovery (the generator re-notifies the affected paths)
            return;
        }
        match (&fresh_outcome, outcome) {
            (Outcome::BatchErr(_), Outcome::BatchErr(_)) => {
                // both fail as a whole (unreadable or invalid configuration, cyclic work):
                // whatever the fresh run left behind is what the pass must leave behind
                let inc_tree = self.view(&current);
                let fresh_tree = self.view(&fresh_snapshot);
                if inc_tree != fresh_tree && pass_index == 0 {
                    violations.push(Violation::new(
                        P,
                        "equal",
                        "write-on-batch-error",
                        format!(
                            "{}: the pass failed as a whole like a fresh run, but left another tree (wrote {:?} / removed {:?})",
                            at, record.writes, record.removes
                        ),
                    ));
                } else if pass_index > 0 && (!record.writes.is_empty() || !record.removes.is_empty()) {
                    let only_fresh_writes = record
                        .writes
                        .iter()
                        .all(|w| fresh_tree.get(w) == inc_tree.get(w));
                    if !only_fresh_writes || !record.removes.is_empty() {
                        violations.push(Violation::new(
                            P,
                            "equal",
                            "write-on-batch-error",
                            format!(
                                "{}: the pass failed as a whole but wrote {:?} / removed {:?}",
                                at, record.writes, record.removes
                            ),
                        ));
                    }
                }
                return;
            }
            (Outcome::BatchErr(err), other) => {
                violations.push(Violation::new(
                    P,
                    "errors",
                    "batch-error-missed",
                    format!(
                        "{}: a fresh run fails as a whole ({}) but the incremental pass gives {}",
                        at,
                        err,
                        other.brief()
                    ),
                ));
                return;
            }
            (other, Outcome::BatchErr(err)) => {
                violations.push(Violation::new(
                    P,
                    "errors",
                    "spurious-batch-error",
                    format!(
                        "{}: the incremental pass fails as a whole ({}) but a fresh run gives {}",
                        at,
                        err,
                        other.brief()
                    ),
                ));
                return;
            }
            _ => {}
        }
        let fresh_errors = fresh_outcome.errors().to_vec();
        let inc_errors = outcome.errors().to_vec();
        let failing = error_sources(&fresh_errors, &inputs);
        stats.relaxed_sources += failing.len() as u64;
        // mirror paths of failing sources (relaxed): any output path attempted for them
        // in the fresh run is unknown, so derive from layout: dir input -> mirror
        let input = gen::normalize(&opts.input);
        let out = output_dir(opts);
        let mirror_of = |source: &str| -> Option<String> {
            source
                .strip_prefix(&format!("{}/", input))
                .map(|rel| gen::join(&out, rel))
        };
        let mut relaxed_paths: BTreeSet<String> = BTreeSet::new();
        for f in &failing {
            if let Some(m) = mirror_of(f) {
                relaxed_paths.insert(m);
            } else if *f == input {
                // single-file input: its destination is whatever the incremental run wrote
                for p in self.written.keys() {
                    relaxed_paths.insert(p.clone());
                }
            }
        }
        if inc_errors != fresh_errors {
            violations.push(Violation::new(
                P,
                "errors",
                "errors-differ",
                format!(
                    "{}: errors reported by the incremental worker differ from a fresh run:\n incremental {:?}\n fresh       {:?}",
                    at, inc_errors, fresh_errors
                ),
            ));
        }
        let inc_tree = self.view(&current);
        let fresh_tree = self.view(&fresh_snapshot);
        let mut only_empty_dirs = true;
        let mut diffs: Vec<(String, String, String)> = Vec::new();
        for (path, content) in &inc_tree {
            match fresh_tree.get(path) {
                Some(fc) if fc == content => {}
                Some(fc) => {
                    let class = match content {
                        Some(bytes)
                            if self
                                .written
                                .get(path)
                                .map(|set| set.contains(&hash_bytes(0, bytes)))
                                .unwrap_or(false) =>
                        {
                            "stale"
                        }
                        _ => "other",
                    };
                    if relaxed_paths.contains(path) {
                        continue;
                    }
                    only_empty_dirs = false;
                    diffs.push((
                        class.to_owned(),
                        path.clone(),
                        format!(
                            "incremental {} vs fresh {}",
                            show_bytes(content),
                            show_bytes(fc)
                        ),
                    ));
                }
                None => {
                    if relaxed_paths.contains(path) {
                        // last good output of a source that currently fails: allowed if
                        // darklua itself wrote exactly these bytes earlier
                        if let Some(bytes) = content {
                            if self
                                .written
                                .get(path)
                                .map(|set| set.contains(&hash_bytes(0, bytes)))
                                .unwrap_or(false)
                            {
                                continue;
                            }
                        }
                    }
                    if self.remove_faulted.contains(path) {
                        continue;
                    }
                    if content.is_none() {
                        // a directory: only an issue of its own when it is empty or holds
                        // only directories
                        let prefix = format!("{}/", path);
                        let has_file = inc_tree
                            .iter()
                            .any(|(p, c)| p.starts_with(&prefix) && c.is_some());
                        if has_file {
                            continue; // reported through the file
                        }
                        diffs.push((
                            "empty-dir".to_owned(),
                            path.clone(),
                            "directory left in the output".to_owned(),
                        ));
                        continue;
                    }
                    only_empty_dirs = false;
                    let input_is_file = matches!(current.get(&input), Some(Some(_)));
                    let live_source = input_is_file || current.iter().any(|(p, c)| {
                        c.is_some()
                            && gen::is_lua(p)
                            && mirror_of(p).as_deref() == Some(path.as_str())
                    });
                    let class = if live_source {
                        // its source still exists: a fresh run writes nothing for it
                        // because a top-level filter now excludes it
                        "excluded-stale"
                    } else if self
                        .removed_sources
                        .iter()
                        .any(|s| mirror_of(s).as_deref() == Some(path.as_str()))
                    {
                        "orphan"
                    } else {
                        "extra"
                    };
                    diffs.push((
                        class.to_owned(),
                        path.clone(),
                        format!("incremental has {}, fresh has nothing", show_bytes(content)),
                    ));
                }
            }
        }
        for (path, content) in &fresh_tree {
            if inc_tree.contains_key(path) {
                continue;
            }
            if content.is_none() {
                let prefix = format!("{}/", path);
                let has_file = fresh_tree
                    .iter()
                    .any(|(p, c)| p.starts_with(&prefix) && c.is_some());
                if has_file {
                    continue;
                }
            }
            only_empty_dirs = false;
            let class = if self.foreign.contains_key(path) {
                "lost-foreign"
            } else {
                "missing"
            };
            diffs.push((
                class.to_owned(),
                path.clone(),
                format!("fresh has {}, incremental has nothing", show_bytes(content)),
            ));
        }
        let _ = only_empty_dirs;
        // one violation per class, naming every path of that class
        let mut by_class: BTreeMap<String, Vec<String>> = BTreeMap::new();
        for (class, path, detail) in diffs {
            by_class
                .entry(class)
                .or_default()
                .push(format!("`{}`: {}", path, detail));
        }
        for (class, details) in by_class {
            violations.push(Violation::new(
                P,
                "equal",
                &class,
                format!(
                    "{}: output tree differs from a fresh run ({}):\n {}",
                    at,
                    class,
                    details.join("\n ")
                ),
            ));
        }
    }
}

/// Entries of a fresh store holding exactly the files and directories of `snapshot`.
fn entries_of(snapshot: &Snapshot) -> Vec<FsEntry> {
    snapshot
        .iter()
        .map(|(path, content)| FsEntry {
            path: path.clone(),
            body: match content {
                Some(bytes) => Body::from_bytes(bytes),
                None => Body::Dir,
            },
        })
        .collect()
}

/// In-place processing (no output location): the output tree *is* the input tree. The
/// reference is a fresh in-place run over what the *user* last wrote (`user`, a store the
/// worker never touches), compared with the tree the long-lived worker has been rewriting.
/// A file the worker processed twice (a touch) equals the reference only when the
/// pipeline is idempotent on it; that is checked by running the reference a second time
/// over its own result and leaving out the paths that still change.
#[allow(clippy::too_many_arguments)]
fn compare_in_place(
    backend: Backend,
    user: &Store,
    store: &Store,
    opts: &OptSpec,
    outcome: &Outcome,
    pass_index: usize,
    fresh_counter: &mut u64,
    stats: &mut RunStats,
    violations: &mut Vec<Violation>,
) {
    let at = format!("pass #{}", pass_index);
    if let Outcome::Panic(msg) = outcome {
        violations.push(Violation::new(
            P,
            "bounded",
            &panic_class(msg),
            format!("{}: the worker panicked: {}", at, msg),
        ));
        return;
    }
    *fresh_counter += 1;
    let hash = crate::rng::mix(0x1f2e3d4c, *fresh_counter);
    let (fresh, expected) = match fresh_run(backend, entries_of(&user.snapshot()), opts.clone(), hash) {
        Ok(r) => r,
        Err(e) => {
            violations.push(Violation::new(P, "harness", "fresh-run-failed", e));
            return;
        }
    };
    let (_, again) = match fresh_run(backend, entries_of(&expected), opts.clone(), hash ^ 1) {
        Ok(r) => r,
        Err(e) => {
            violations.push(Violation::new(P, "harness", "fresh-run-failed", e));
            return;
        }
    };
    stats.fresh_runs += 2;
    stats.executions += 2;
    match (outcome, &fresh) {
        (Outcome::Done { errors, .. }, Outcome::Done { errors: fresh_errors, .. }) => {
            if errors != fresh_errors {
                violations.push(Violation::new(
                    P,
                    "errors",
                    "errors-differ",
                    format!(
                        "{}: (in place) the worker reports {:?}, a fresh run over the same inputs {:?}",
                        at, errors, fresh_errors
                    ),
                ));
            }
        }
        (Outcome::BatchErr(_), Outcome::BatchErr(_)) => {}
        (a, b) => {
            violations.push(Violation::new(
                P,
                "errors",
                "outcome-differs",
                format!("{}: (in place) the worker ended with {}, a fresh run with {}", at, a.brief(), b.brief()),
            ));
            return;
        }
    }
    let actual = store.snapshot();
    let mut by_class: BTreeMap<&'static str, Vec<String>> = BTreeMap::new();
    for (path, want) in &expected {
        if want.is_none() {
            continue;
        }
        if again.get(path) != Some(want) {
            // processing this file twice gives something else: not comparable
            stats.in_place_not_idempotent += 1;
            continue;
        }
        stats.in_place_compared += 1;
        match actual.get(path) {
            Some(got) if got == want => {}
            Some(got) => by_class.entry("stale").or_default().push(format!(
                "`{}`: fresh has {}, the worker's tree has {}",
                path,
                show_bytes(want),
                show_bytes(got)
            )),
            None => by_class
                .entry("missing")
                .or_default()
                .push(format!("`{}`: fresh has {}, the worker's tree has nothing", path, show_bytes(want))),
        }
    }
    for (path, got) in &actual {
        if got.is_some() && !expected.contains_key(path) {
            by_class
                .entry("orphan")
                .or_default()
                .push(format!("`{}`: the worker's tree has {}, fresh has nothing", path, show_bytes(got)));
        }
    }
    for (class, details) in by_class {
        violations.push(Violation::new(
            P,
            "equal",
            class,
            format!(
                "{}: (in place) the tree differs from a fresh in-place run over what the user wrote ({}):\n {}",
                at,
                class,
                details.join("\n ")
            ),
        ));
    }
}

pub fn run_l1(scn: &C10Scenario, stats: &mut RunStats) -> Vec<Violation> {
    let mut violations: Vec<Violation> = Vec::new();
    // the real file system through the library: one history at a time owns the working
    // directory of this process
    let _home = HomeGuard(if scn.backend == Backend::RealLib {
        Some(exec::CWD_LOCK.lock().unwrap_or_else(|e| e.into_inner()))
    } else {
        None
    });
    let store = Store::new(scn.backend, scn.walk_seed, &scn.entries);
    if let Some(root) = store.real_root() {
        exec::set_home(Some(root));
        store.enter();
    }
    let resources = store.resources();
    let mut opts = scn.opts.clone();
    let in_place = is_in_place(&opts);
    let region = if in_place {
        gen::normalize(&opts.input)
    } else {
        output_region(&opts, false)
    };
    // in place: what the user wrote, untouched by the worker
    let user: Option<Store> = if in_place {
        Some(Store::new(scn.backend, scn.walk_seed, &scn.entries))
    } else {
        None
    };
    let mut oracle = Oracle::new(scn.backend, &store, &region);
    // without directories (memory back end) the output-structure snapshot that only
    // `darklua_core::process` takes does not matter: such histories may start through the
    // public API alone
    let mut inc = Incremental {
        tree: None,
        api_only: scn.backend == Backend::Memory && scn.use_add_source,
    };
    let mut pass_index = 0usize;
    let mut pending_faults: Vec<FaultRule> = Vec::new();
    let mut pending_renotify: Vec<String> = Vec::new();
    let mut pending_fail_fast = false;
    // the last pass ran under injected faults or fail-fast: it may have left work undone
    let mut last_pass_relaxed = false;
    let mut signature = 0u64;
    let mut last_outcome: Option<Outcome> = None;
    let mut total_outputs_seen = 0usize;
    let sim: Option<Arc<SimFs>> = store.sim().cloned();
    let file_count = scn.entries.len() + scn.ops.len();

    for (op_index, op) in scn.ops.iter().enumerate() {
        *stats.ops.entry(op_kind(op).to_owned()).or_insert(0) += 1;
        match op {
            Op::Edit { path, body } | Op::Add { path, body } => {
                // the watcher reports a write to a missing path as a creation, whatever
                // the history calls it
                let existed = store.user_read(path).is_some();
                if let Some(bytes) = body.bytes() {
                    store.user_write(path, &bytes);
                    if let Some(user) = &user {
                        user.user_write(path, &bytes);
                    }
                }
                oracle.removed_sources.remove(path);
                if let Some(tree) = inc.tree.as_mut() {
                    let is_add = !existed;
                    let result = exec::catch(|| {
                        if is_add {
                            if scn.use_add_source {
                                // the output path exactly as `collect_work` would spell it
                                let input = gen::normalize(&opts.input);
                                let out = opts.output.clone().unwrap_or_default();
                                let mirror = path.strip_prefix(&format!("{}/", input)).map(|rel| {
                                    Path::new(&out).join(rel).to_string_lossy().into_owned()
                                });
                                if gen::is_lua(path) && mirror.is_some() {
                                    let mirror = if opts.output.is_none() { None } else { mirror };
                                    tree.add_source(Path::new(path), mirror.map(Into::into));
                                } else {
                                    // not a source below the input directory (a module
                                    // elsewhere, a data file, or the single input file
                                    // itself, whose output path only `collect_work` knows)
                                    tree.source_changed(Path::new(path));
                                    if *path == input {
                                        if let Ok(options) = exec::build_options(&opts) {
                                            let _ = tree.collect_work(&resources, &options);
                                        }
                                    }
                                }
                            } else {
                                // what `process_events` does for a Create event
                                tree.source_changed(Path::new(path));
                                if let Ok(options) = exec::build_options(&opts) {
                                    let _ = tree.collect_work(&resources, &options);
                                }
                            }
                        } else {
                            // a library user may report a changed known source through
                            // `add_source` as well (it restarts a source it already knows)
                            let input = gen::normalize(&opts.input);
                            let out = opts.output.clone().unwrap_or_default();
                            let mirror = path.strip_prefix(&format!("{}/", input)).map(|rel| {
                                Path::new(&out).join(rel).to_string_lossy().into_owned()
                            });
                            if scn.use_add_source
                                && gen::is_lua(path)
                                && mirror.is_some()
                                && crate::rng::mix(scn.seed, op_index as u64) % 2 == 0
                            {
                                let mirror = if opts.output.is_none() { None } else { mirror };
                                tree.add_source(Path::new(path), mirror.map(Into::into));
                            } else {
                                tree.source_changed(Path::new(path));
                            }
                        }
                    });
                    if let Err(msg) = result {
                        violations.push(Violation::new(
                            P,
                            "bounded",
                            &panic_class(&msg),
                            format!("op #{} ({}): notification panicked: {}", op_index, op_kind(op), msg),
                        ));
                        break;
                    }
                }
            }
            Op::TamperOutput { output, body, source } => {
                match body.as_ref().and_then(|b| b.bytes()) {
                    Some(bytes) => store.user_write(output, &bytes),
                    None => store.user_remove(output),
                }
                if let Some(bytes) = store.user_read(source) {
                    store.user_write(source, &bytes);
                }
                if let Some(tree) = inc.tree.as_mut() {
                    if let Err(msg) = exec::catch(|| tree.source_changed(Path::new(source))) {
                        violations.push(Violation::new(
                            P,
                            "bounded",
                            &panic_class(&msg),
                            format!("op #{} (TamperOutput): notification panicked: {}", op_index, msg),
                        ));
                        break;
                    }
                }
            }
            Op::Touch { path } => {
                if let Some(bytes) = store.user_read(path) {
                    store.user_write(path, &bytes);
                }
                if let Some(tree) = inc.tree.as_mut() {
                    if let Err(msg) = exec::catch(|| tree.source_changed(Path::new(path))) {
                        violations.push(Violation::new(
                            P,
                            "bounded",
                            &panic_class(&msg),
                            format!("op #{} (Touch): notification panicked: {}", op_index, msg),
                        ));
                        break;
                    }
                }
            }
            Op::RemoveFile { path } | Op::RemoveDir { path } => {
                // remember which sources disappear (for classification only)
                let current = store.snapshot();
                for p in current.keys() {
                    if is_under(p, path) && gen::is_lua(p) {
                        oracle.removed_sources.insert(p.clone());
                    }
                }
                store.user_remove(path);
                if let Some(user) = &user {
                    user.user_remove(path);
                }
                if let Some(tree) = inc.tree.as_mut() {
                    if let Err(msg) = exec::catch(|| tree.remove_source(Path::new(path))) {
                        violations.push(Violation::new(
                            P,
                            "bounded",
                            &panic_class(&msg),
                            format!("op #{} ({}): notification panicked: {}", op_index, op_kind(op), msg),
                        ));
                        break;
                    }
                }
            }
            Op::Rename { from, to } => {
                let current = store.snapshot();
                for p in current.keys() {
                    if is_under(p, from) && gen::is_lua(p) {
                        oracle.removed_sources.insert(p.clone());
                    }
                }
                if let Some(user) = &user {
                    // the user moves what is on disk now (already processed or not)
                    let moved: Vec<(String, Vec<u8>)> = current
                        .iter()
                        .filter(|(p, c)| is_under(p, from) && c.is_some())
                        .map(|(p, c)| (format!("{}{}", to, &p[from.len()..]), c.clone().unwrap()))
                        .collect();
                    user.user_remove(from);
                    for (p, bytes) in moved {
                        user.user_write(&p, &bytes);
                    }
                }
                store.user_rename(from, to);
                if let Some(tree) = inc.tree.as_mut() {
                    let result = exec::catch(|| {
                        tree.remove_source(Path::new(from));
                        tree.remove_source(Path::new(to));
                        if let Ok(options) = exec::build_options(&opts) {
                            let _ = tree.collect_work(&resources, &options);
                        }
                    });
                    if let Err(msg) = result {
                        violations.push(Violation::new(
                            P,
                            "bounded",
                            &panic_class(&msg),
                            format!("op #{} (Rename): notification panicked: {}", op_index, msg),
                        ));
                        break;
                    }
                }
            }
            Op::ConfigObject { text } => {
                opts.config = ConfigSource::Object(text.clone());
            }
            Op::ForeignDir { path } => {
                // somebody else creates folders in the output location: nobody is told,
                // and from now on they are foreign content a fresh run starts with
                store.user_mkdir(path);
                oracle.foreign.insert(path.clone(), None);
            }
            Op::Wait { .. } => {}
            Op::FailFastNext => {
                pending_fail_fast = true;
            }
            Op::GeneratorOverride { name } => {
                opts.generator_override = name.clone();
            }
            Op::Faults { rules, renotify } => {
                pending_faults = rules.clone();
                pending_renotify = renotify.clone();
            }
            Op::Pass => {
                let fail_fast_pass = std::mem::take(&mut pending_fail_fast);
                let saved_opts = opts.clone();
                if fail_fast_pass {
                    opts.fail_fast = true;
                }
                let faulty_pass = !pending_faults.is_empty() || fail_fast_pass;
                let log_start = match &sim {
                    Some(fs) => {
                        fs.set_faults(std::mem::take(&mut pending_faults));
                        fs.set_budget(budget_for(file_count));
                        fs.log_len()
                    }
                    None => 0,
                };
                let before_out = sub_snapshot(&store.snapshot(), &region);
                let outcome = inc.pass(&resources, &opts);
                stats.passes += 1;
                stats.executions += 1;
                let pass_log = match &sim {
                    Some(fs) => {
                        for (idx, _) in fs.fired() {
                            let _ = idx;
                        }
                        let log = fs.log_since(log_start);
                        for rec in &log {
                            if let Some(kind) = rec.fault {
                                *stats
                                    .faults_fired
                                    .entry(format!("{:?}", kind))
                                    .or_insert(0) += 1;
                            }
                        }
                        fs.set_faults(Vec::new());
                        fs.set_budget(u64::MAX / 2);
                        log
                    }
                    None => Vec::new(),
                };
                signature = crate::rng::mix(signature, io_signature(&pass_log));
                oracle.note_log(&pass_log);
                // for the Memory backend there is no op log: record what changed
                if sim.is_none() {
                    let after_out = sub_snapshot(&store.snapshot(), &region);
                    for (p, c) in &after_out {
                        if before_out.get(p) != Some(c) {
                            if let Some(bytes) = c {
                                oracle
                                    .written
                                    .entry(p.clone())
                                    .or_default()
                                    .insert(hash_bytes(0, bytes));
                            }
                        }
                    }
                }
                let before_len = violations.len();
                if let Some(user) = &user {
                    compare_in_place(
                        scn.backend,
                        user,
                        &store,
                        &opts,
                        &outcome,
                        pass_index,
                        &mut oracle.fresh_counter,
                        stats,
                        &mut violations,
                    );
                } else {
                    oracle.compare(
                        &store,
                        &opts,
                        &outcome,
                        &pass_log,
                        pass_index,
                        faulty_pass,
                        stats,
                        &mut violations,
                    );
                }
                // non-trivial: a pass after the first that rewrote a strict non-empty subset
                if pass_index > 0 {
                    let rec = summarize(&pass_log);
                    let outputs = sub_snapshot(&store.snapshot(), &region)
                        .values()
                        .filter(|c| c.is_some())
                        .count();
                    total_outputs_seen = total_outputs_seen.max(outputs);
                    let distinct: BTreeSet<&String> = rec.writes.iter().collect();
                    if !distinct.is_empty() && distinct.len() < outputs {
                        stats.nontrivial = true;
                    }
                    if sim.is_none() {
                        stats.nontrivial = true;
                    }
                }
                pass_index += 1;
                last_outcome = Some(outcome);
                last_pass_relaxed = faulty_pass;
                opts = saved_opts;
                if faulty_pass {
                    // faults have stopped: the affected paths are reported again
                    for path in std::mem::take(&mut pending_renotify) {
                        if let Some(bytes) = store.user_read(&path) {
                            store.user_write(&path, &bytes);
                        }
                        if let Some(tree) = inc.tree.as_mut() {
                            if let Err(msg) = exec::catch(|| tree.source_changed(Path::new(&path))) {
                                violations.push(Violation::new(
                                    P,
                                    "bounded",
                                    &panic_class(&msg),
                                    format!("recovery notification panicked: {}", msg),
                                ));
                            }
                        }
                    }
                }
                if violations.len() > before_len {
                    // stop at the first failing pass: later passes inherit the damage
                    break;
                }
            }
        }
    }

    // quiescent: one more pass with nothing to do performs no write and no remove
    if violations.is_empty() && inc.tree.is_some() && !last_pass_relaxed {
        if let (Some(fs), Some(Outcome::Done { .. })) = (&sim, &last_outcome) {
            let log_start = fs.log_len();
            fs.set_budget(budget_for(file_count));
            let before_idle = sub_snapshot(&store.snapshot(), &region);
            let outcome = inc.pass(&resources, &opts);
            stats.passes += 1;
            stats.executions += 1;
            let log = fs.log_since(log_start);
            fs.set_budget(u64::MAX / 2);
            if let Outcome::Panic(msg) = &outcome {
                violations.push(Violation::new(
                    P,
                    "bounded",
                    &panic_class(msg),
                    format!("idle pass panicked: {}", msg),
                ));
            }
            let rec = summarize(&log);
            // C10 does not promise minimal work: an idle pass that rewrites outputs is
            // only counted (it happens e.g. when the serialized configuration is not
            // stable between passes), see DESIGN.md
            stats.idle_pass_writes += rec.writes.len() as u64;
            stats.idle_pass_removes += rec.removes.len() as u64;
            stats.idle_passes += 1;
            // but it must leave the tree as it was
            let after_idle = sub_snapshot(&store.snapshot(), &region);
            if after_idle != before_idle {
                violations.push(Violation::new(
                    P,
                    "equal",
                    "idle-pass-changes-tree",
                    format!(
                        "a pass with no intervening change altered the output tree (wrote {:?}, removed {:?})",
                        rec.writes, rec.removes
                    ),
                ));
            }
        }
    }
    stats.io_signature = signature;
    violations
}

// ------------------------------------------------------------------ property plumbing

use crate::c10gen;
use crate::driver::{run_seed, Property, RunReport};
use crate::model::Scenario;
use serde_json::json;

pub struct C10;

/// Names of generator avoidances for open known findings (see known_findings.json).
pub fn avoid_list() -> Vec<String> {
    crate::driver::load_known_findings()
        .into_iter()
        .filter(|k| k.status == "open" && k.property == "C10")
        .filter_map(|k| k.avoid)
        .collect()
}

fn references(op: &Op, path: &str) -> bool {
    let hit = |p: &str| p == path || p.starts_with(&format!("{}/", path)) || path.starts_with(&format!("{}/", p));
    match op {
        Op::Edit { path: p, .. } | Op::Touch { path: p } | Op::Add { path: p, .. } => hit(p),
        Op::RemoveFile { path: p } | Op::RemoveDir { path: p } => hit(p),
        Op::Rename { from, to } => hit(from) || hit(to),
        Op::TamperOutput { source, .. } => hit(source),
        Op::Faults { rules, renotify } => {
            rules.iter().any(|r| hit(&r.path)) || renotify.iter().any(|p| hit(p))
        }
        _ => false,
    }
}

impl C10 {
    fn candidates(&self, scn: &C10Scenario) -> Vec<C10Scenario> {
        let mut out: Vec<C10Scenario> = Vec::new();
        let n = scn.ops.len();
        // drop halves, quarters, then single operations (never the first pass)
        let mut chunk = n / 2;
        while chunk >= 1 {
            let mut start = 1;
            while start < n {
                let end = (start + chunk).min(n);
                let mut c = scn.clone();
                c.ops.drain(start..end);
                if !matches!(c.ops.last(), Some(Op::Pass)) {
                    c.ops.push(Op::Pass);
                }
                if c.ops.len() < scn.ops.len() {
                    out.push(c);
                }
                start = end;
            }
            if chunk == 1 {
                break;
            }
            chunk /= 2;
        }
        // drop entries that no operation mentions and nobody requires
        let config_path = crate::c11::config_path_of(&scn.opts, &scn.entries);
        let input_norm = gen::normalize(&scn.opts.input);
        for i in 0..scn.entries.len() {
            let path = scn.entries[i].path.clone();
            if Some(&path) == config_path.as_ref() || path == input_norm {
                continue;
            }
            if scn.ops.iter().any(|op| references(op, &path)) {
                continue;
            }
            if let Some(deps) = &scn.opts.include_deps {
                if deps.contains_key(&path) || deps.values().any(|v| v.contains(&path)) {
                    continue;
                }
            }
            if scn.entries[i].body == Body::Dir
                && scn
                    .entries
                    .iter()
                    .any(|e| e.path.starts_with(&format!("{}/", path)))
            {
                continue;
            }
            let name = gen::file_name(&path);
            let required = scn.entries.iter().any(|e| match &e.body {
                Body::Text(t) => t.contains(&format!("{}\")", name)),
                _ => false,
            }) || scn.ops.iter().any(|op| match op {
                Op::Edit { body: Body::Text(t), .. } | Op::Add { body: Body::Text(t), .. } => {
                    t.contains(&format!("{}\")", name))
                }
                _ => false,
            });
            if required {
                continue;
            }
            let mut c = scn.clone();
            c.entries.remove(i);
            out.push(c);
        }
        // simplify configurations
        match &scn.opts.config {
            ConfigSource::Object(text) => {
                for variant in crate::c11::config_variants(text) {
                    let mut c = scn.clone();
                    c.opts.config = ConfigSource::Object(variant);
                    out.push(c);
                }
            }
            _ => {
                if let Some(path) = &config_path {
                    if let Some(Body::Text(text)) =
                        scn.entries.iter().find(|e| e.path == *path).map(|e| &e.body)
                    {
                        for variant in crate::c11::config_variants(text) {
                            let mut c = scn.clone();
                            for e in c.entries.iter_mut() {
                                if e.path == *path {
                                    e.body = Body::Text(variant.clone());
                                }
                            }
                            out.push(c);
                        }
                    }
                }
            }
        }
        for (i, op) in scn.ops.iter().enumerate() {
            let text = match op {
                Op::ConfigObject { text } => Some(text.clone()),
                Op::Edit { path, body: Body::Text(text) } if Some(path) == config_path.as_ref() => {
                    Some(text.clone())
                }
                _ => None,
            };
            if let Some(text) = text {
                for variant in crate::c11::config_variants(&text) {
                    let mut c = scn.clone();
                    match &mut c.ops[i] {
                        Op::ConfigObject { text } => *text = variant,
                        Op::Edit { body, .. } => *body = Body::Text(variant),
                        _ => {}
                    }
                    out.push(c);
                }
            }
        }
        // trivial bodies where no require is involved
        let trivial = |marker: &str| Body::Text(format!("return {{ \"{}\" }}\n", marker));
        for i in 0..scn.entries.len() {
            if let Body::Text(t) = &scn.entries[i].body {
                if gen::is_lua(&scn.entries[i].path)
                    && !t.contains("require(")
                    && t.len() > 24
                    && !t.starts_with("return {")
                {
                    let mut c = scn.clone();
                    c.entries[i].body = trivial(&format!("e{}", i));
                    out.push(c);
                }
            }
        }
        for i in 0..scn.ops.len() {
            if let Op::Edit { path, body: Body::Text(t) } | Op::Add { path, body: Body::Text(t) } =
                &scn.ops[i]
            {
                if gen::is_lua(path) && !t.contains("require(") && t.len() > 24 && !t.starts_with("return {") {
                    let mut c = scn.clone();
                    let b = trivial(&format!("o{}", i));
                    match &mut c.ops[i] {
                        Op::Edit { body, .. } | Op::Add { body, .. } => *body = b,
                        _ => {}
                    }
                    out.push(c);
                }
            }
        }
        if let Some(deps) = &scn.opts.include_deps {
            for key in deps.keys() {
                let mut c = scn.clone();
                if let Some(d) = c.opts.include_deps.as_mut() {
                    d.remove(key);
                }
                out.push(c);
            }
            for (key, list) in deps {
                if list.len() > 1 {
                    for i in 0..list.len() {
                        let mut c = scn.clone();
                        if let Some(d) = c.opts.include_deps.as_mut() {
                            d.get_mut(key).unwrap().remove(i);
                        }
                        out.push(c);
                    }
                }
            }
        }
        if scn.use_add_source {
            let mut c = scn.clone();
            c.use_add_source = false;
            out.push(c);
        }
        if scn.opts.generator_override.is_some() {
            let mut c = scn.clone();
            c.opts.generator_override = None;
            out.push(c);
        }
        if (scn.walk_seed, scn.hash_seed) != (0, 0) {
            let mut c = scn.clone();
            c.walk_seed = 0;
            c.hash_seed = 0;
            out.push(c);
        }
        out
    }
}

/// L1 histories over the real file system, appended to every batch.
fn real_lib_runs(tier: &str) -> usize {
    if tier == "thorough" {
        12_000
    } else {
        320
    }
}

impl Property for C10 {
    fn id(&self) -> &'static str {
        "C10"
    }
    fn level(&self) -> &'static str {
        "exploration"
    }
    fn runs_for(&self, tier: &str) -> usize {
        (if tier == "thorough" { 1_000_000 } else { 30_000 }) + real_lib_runs(tier)
    }
    fn run(&self, seed: u64, index: usize, tier: &str) -> Result<RunReport, String> {
        let run_seed = run_seed(seed, "C10", tier, index);
        static AVOID: std::sync::OnceLock<Vec<String>> = std::sync::OnceLock::new();
        let avoid = AVOID.get_or_init(avoid_list);
        // most runs steer clear of the triggers of open known findings so that one open
        // finding does not mask the rest of the space; every 8th run does not
        // layer LW (real --watch binary, real time): thorough tier only, 48 histories
        // (right behind the enumerated strata: L1, then L2 x 3 save styles)
        let lw_start = c10gen::enum_count(3) * 4;
        let real_watch = tier == "thorough"
            && crate::tierb::available()
            && index >= lw_start
            && index < lw_start + 48 * 7
            && (index - lw_start) % 7 == 0;
        // the last indices of a batch: L1 histories over the real file system (the real
        // `Source::FileSystem` arm through the library, in a scratch directory)
        let real_lib = index >= self.runs_for(tier) - real_lib_runs(tier);
        let knobs = c10gen::Knobs {
            // the work-item graph is only reachable through a harness-supplied rule and
            // every use of it currently ends in a non-terminating work loop (known
            // finding D13), so this dimension is opt-in: VERIF_GRAPH=1
            include_graph: index % 10 == 4 && std::env::var_os("VERIF_GRAPH").is_some(),
            layer: if real_watch {
                Layer::LW
            } else if real_lib {
                Layer::L1
            } else if index % 4 == 3 {
                Layer::L2
            } else {
                Layer::L1
            },
            max_ops: 12,
            allow_faults: !real_lib,
            real_lib,
            avoid: if real_watch {
                let mut list = avoid.clone();
                list.push("top-level-filter-change".to_owned());
                list
            } else if index % 8 == 7 {
                Vec::new()
            } else {
                avoid.clone()
            },
        };
        // the first indices of every batch are the exhaustive short-history stratum
        let enum_len = if tier == "thorough" { 3 } else { 2 };
        let enum_l1 = c10gen::enum_count(enum_len);
        let enumerated = if index < enum_l1 {
            c10gen::enumerated(index, enum_len)
        } else if index < enum_l1 * 4 {
            // the same histories through the real FileWatcher, once per save style
            let j = index - enum_l1;
            c10gen::enumerated(j / 3, enum_len).map(|mut scn| {
                scn.layer = Layer::L2;
                scn.seed = crate::l2::forced_style_seed(scn.seed, (j % 3) as u64);
                scn
            })
        } else {
            None
        };
        let is_enumerated = enumerated.is_some();
        let scn = match enumerated {
            Some(scn) => scn,
            None => c10gen::generate(run_seed, &knobs),
        };
        let mut stats = RunStats::default();
        let violations = check(&scn, &mut stats)?;
        let mut counters: BTreeMap<String, u64> = BTreeMap::new();
        for (k, v) in &stats.ops {
            counters.insert(format!("op:{}", k), *v);
        }
        for (k, v) in &stats.faults_fired {
            counters.insert(format!("fault_fired:{}", k), *v);
        }
        for (k, v) in &stats.probes {
            counters.insert(format!("probe:{}", k), *v);
        }
        if is_enumerated {
            counters.insert("enumerated_short_histories".to_owned(), 1);
            if scn.layer == Layer::L2 {
                counters.insert("enumerated_short_histories_l2".to_owned(), 1);
            }
        }
        counters.insert("passes".to_owned(), stats.passes);
        counters.insert("fresh_run_comparisons".to_owned(), stats.fresh_runs);
        counters.insert("relaxed_failing_sources".to_owned(), stats.relaxed_sources);
        counters.insert(format!("backend:{:?}", scn.backend), 1);
        counters.insert(format!("layer:{:?}", scn.layer), 1);
        if is_in_place(&scn.opts) {
            counters.insert("in_place_histories".to_owned(), 1);
            counters.insert("in_place_files_compared".to_owned(), stats.in_place_compared);
            counters.insert("in_place_files_not_idempotent".to_owned(), stats.in_place_not_idempotent);
        }
        if scn.opts.include_deps.is_some() {
            counters.insert("harness_rule_verif_include".to_owned(), 1);
        }
        counters.insert("simulated_ms".to_owned(), stats.sim_ms);
        counters.insert("idle_passes".to_owned(), stats.idle_passes);
        counters.insert("idle_pass_writes".to_owned(), stats.idle_pass_writes);
        Ok(RunReport {
            stats: json!({
                "passes": stats.passes,
                "fresh_runs": stats.fresh_runs,
                "ops": stats.ops,
                "faults_fired": stats.faults_fired,
            }),
            io_signature: stats.io_signature,
            nontrivial: stats.nontrivial,
            executions: stats.executions,
            counters,
            violations,
            scenario: Scenario::C10(scn),
        })
    }
    fn recheck(&self, scenario: &Scenario) -> Result<Vec<Violation>, String> {
        match scenario {
            Scenario::C10(scn) => {
                let mut stats = RunStats::default();
                check(scn, &mut stats)
            }
            _ => Err("not a C10 scenario".to_owned()),
        }
    }
    fn shrink_candidates(&self, scenario: &Scenario) -> Vec<Scenario> {
        match scenario {
            Scenario::C10(scn) => self.candidates(scn).into_iter().map(Scenario::C10).collect(),
            _ => Vec::new(),
        }
    }
    fn kinds(&self, scenario: &Scenario) -> Vec<String> {
        match scenario {
            Scenario::C10(scn) => {
                // a write is called by what it does (creation of a missing path = Add),
                // not by the name the operation carries after generation or shrinking
                let mut existing: BTreeSet<String> = scn
                    .entries
                    .iter()
                    .filter(|e| e.body != Body::Dir)
                    .map(|e| e.path.clone())
                    .collect();
                let mut kinds: Vec<String> = Vec::new();
                // marker: some operation makes a path exist that did not exist before
                let mut creates = false;
                // marker: a `.luaurc` appears where there was none
                let mut creates_luaurc = false;
                for op in &scn.ops {
                    match op {
                        Op::Pass | Op::Wait { .. } => {}
                        Op::Edit { path, .. } | Op::Add { path, .. } => {
                            if existing.insert(path.clone()) {
                                kinds.push("Add".to_owned());
                                creates = true;
                                if gen::file_name(path) == ".luaurc" {
                                    creates_luaurc = true;
                                }
                            } else {
                                kinds.push("Edit".to_owned());
                            }
                        }
                        Op::RemoveFile { path } => {
                            existing.remove(path);
                            kinds.push("RemoveFile".to_owned());
                        }
                        Op::RemoveDir { path } => {
                            existing.retain(|p| !p.starts_with(&format!("{}/", path)));
                            kinds.push("RemoveDir".to_owned());
                        }
                        Op::Rename { from, to } => {
                            if existing.remove(from) {
                                existing.insert(to.clone());
                            }
                            // a file (or the files of a directory) appears under a new name
                            creates = true;
                            kinds.push("Rename".to_owned());
                        }
                        other => kinds.push(op_kind(other).to_owned()),
                    }
                }
                let bare = |t: &str| -> bool {
                    t.lines().any(|l| {
                        l.contains("require(\"")
                            && !l.contains(".lua\")")
                            && !l.contains(".luau\")")
                            && !l.contains(".json\")")
                            && !l.contains(".yaml\")")
                            && !l.contains(".toml\")")
                            && !l.contains(".txt\")")
                    })
                };
                let uses_bare = scn
                    .entries
                    .iter()
                    .any(|e| matches!(&e.body, Body::Text(t) if bare(t)))
                    || scn.ops.iter().any(|op| match op {
                        Op::Edit { body: Body::Text(t), .. } | Op::Add { body: Body::Text(t), .. } => bare(t),
                        _ => false,
                    });
                if uses_bare {
                    kinds.push("BareRequire".to_owned());
                }
                let uses_convert = scn.entries.iter().any(
                    |e| matches!(&e.body, Body::Text(t) if t.contains("\"rule\":\"convert_require\"")),
                );
                if uses_convert {
                    kinds.push("ConvertRequire".to_owned());
                }
                if scn.opts.include_deps.is_some() {
                    // a finding that needs the harness rule never matches a scenario
                    // without it, and the other way round
                    kinds.push("HarnessRule".to_owned());
                }
                if is_in_place(&scn.opts) {
                    kinds.push("InPlace".to_owned());
                }
                if creates {
                    kinds.push("Creates".to_owned());
                }
                if creates_luaurc {
                    kinds.push("CreatesLuaurc".to_owned());
                }
                kinds.sort();
                kinds
            }
            _ => Vec::new(),
        }
    }
    fn rule_text(&self) -> String {
        "The first indices enumerate completely all histories of <= 2 (quick) / <= 3 (thorough) operations from a 16-letter alphabet over one fixed bundle project, once through the WorkerTree notification API (L1) and three times through the real FileWatcher behind the notify stub (L2, one per save style). Each further simulated run is one history: a PRNG-generated project (several sources in nested directories, optional bundle DAG with data files and modules outside the input, or a single bundle entry), configuration and 1-12 user operations (edit / break / fix / add / add-require / remove file / remove directory / rename / delete-and-recreate / touch / configuration change incl. filter-only, rule-order-only and invalid configurations / life cycle of the default configuration files / .luaurc, sourcemap and require-mode changes / a module outside the input that starts being required later / a fail-fast pass / transient I/O fault then recovery) interleaved with passes, driven through one long-lived WorkerTree (L1: source_changed / remove_source / collect_work|add_source / process as --watch calls them) over SimFs, the real Memory arm or (the last 320 / 12 000 histories of a batch, in which another program also creates folders in the output location) the real file-system arm in a scratch directory under a chosen enumeration order and std hash seed. After every pass a fresh run on a thread of its own over a copy of the current inputs (output location reset to the pre-existing foreign content) is the reference: output trees (files and directories) and error sets must be equal; a final idle pass must not change the tree. One in ten eligible L1 histories runs in place (no output location, or the input as output): the reference is then a fresh in-place run over a second store that only ever received the user's writes. evaluations = process() executions (passes + fresh runs). A history is non-trivial when some pass after the first rewrote a strict non-empty subset of the outputs; distinct = distinct sequence of per-pass normalised op logs.".to_owned()
    }
    fn assumptions(&self) -> Vec<String> {
        vec![
            "A clean batch is evidence over the sampled histories, not proof.".to_owned(),
            "L1 hard-codes the event-to-call mapping of FileWatcher::process_events; L2 (real FileWatcher behind a stubbed notify/debouncer) is the layer that checks that mapping.".to_owned(),
            "For a source that currently fails, its output may be absent or be bytes darklua itself wrote earlier for it (DESIGN.md 4.3); all other paths are compared exactly.".to_owned(),
            "During a pass with injected I/O faults only no-panic and confinement to the output location are demanded; equality is demanded after the affected path is reported again.".to_owned(),
            "Lost notifications and symlinked inputs are out of scope; a pass run with fail-fast is judged like a pass under injected faults.".to_owned(),
        ]
    }
    fn components(&self) -> serde_json::Value {
        json!({
            "real": ["WorkerTree (collect_work, process, source_changed, add_source, remove_source, clean_files, configuration hash)", "Worker", "WorkCache", "Configuration (json5)", "all rules", "bundler", "path locators", "parser", "3 generators", "Source::Memory arm (1/6 of L1 runs)", "Source::FileSystem arm itself in the real-file-system stratum (the last 320 / 12 000 L1 histories of a batch, scratch directory on /dev/shm) and under layer LW"],
            "stub": ["Source::FileSystem arm (std::fs) -> SimFs via hook H1 (all other histories)", "L1: FileWatcher::process_events replaced by the protocol table of DESIGN.md 4.2"],
        })
    }
    fn shrink_budget(&self, scenario: &Scenario, default: usize) -> usize {
        match scenario {
            // every re-execution of a real-watch history takes tens of seconds
            Scenario::C10(scn) if scn.layer == Layer::LW => 6,
            _ => default,
        }
    }
    fn extra_evidence(&self) -> serde_json::Value {
        let path = crate::driver::verif_dir().join("calibration.json");
        let calibration = std::fs::read_to_string(&path)
            .ok()
            .and_then(|t| serde_json::from_str::<serde_json::Value>(&t).ok());
        match calibration {
            Some(doc) => {
                let variants = doc["variants"].as_array().cloned().unwrap_or_default();
                json!({
                    "stub_calibration": {
                        "source": "calibration.json (written by `./check calibrate`, real notify 8.2.0 + notify-debouncer-full 0.7.0 on tmpfs)",
                        "variants": variants.len(),
                        "failed": doc["failed"],
                        "status": variants.iter().map(|v| json!({"variant": v["variant"], "status": v["status"]})).collect::<Vec<_>>(),
                    },
                    "exhaustive_stratum": {
                        "alphabet": crate::c10gen::ENUM_ALPHABET,
                        "histories_up_to_2_ops": crate::c10gen::enum_count(2),
                        "histories_up_to_3_ops": crate::c10gen::enum_count(3),
                        "layers": "every enumerated history runs once at L1 (WorkerTree notification API) and three times at L2 (real FileWatcher behind the notify stub), once per save style (in place, atomic, delete-and-recreate); quick: up to 2 operations, thorough: up to 3",
                    }
                })
            }
            None => json!({"stub_calibration": "calibration.json not found"}),
        }
    }
    fn sample(&self, scenario: &Scenario) -> serde_json::Value {
        match scenario {
            Scenario::C10(scn) => json!({
                "layer": format!("{:?}", scn.layer),
                "backend": format!("{:?}", scn.backend),
                "opts": scn.opts,
                "paths": scn.entries.iter().map(|e| e.path.clone()).collect::<Vec<_>>(),
                "ops": scn.ops.iter().map(|op| match op {
                    Op::Edit { path, .. } => format!("Edit {}", path),
                    Op::Add { path, .. } => format!("Add {}", path),
                    Op::Touch { path } => format!("Touch {}", path),
                    Op::RemoveFile { path } => format!("RemoveFile {}", path),
                    Op::RemoveDir { path } => format!("RemoveDir {}", path),
                    Op::Rename { from, to } => format!("Rename {} -> {}", from, to),
                    Op::ConfigObject { text } => format!("ConfigObject {}", text),
                    Op::Pass => "Pass".to_owned(),
                    Op::FailFastNext => "FailFastNext".to_owned(),
                    Op::ForeignDir { path } => format!("ForeignDir {}", path),
                    Op::GeneratorOverride { name } => format!("GeneratorOverride {:?}", name),
                    Op::TamperOutput { output, source, .. } => format!("TamperOutput {} (source {})", output, source),
                    Op::Wait { ms } => format!("Wait {}ms", ms),
                    Op::Faults { rules, renotify } => format!("Faults {:?} renotify {:?}", rules, renotify),
                }).collect::<Vec<_>>(),
            }),
            _ => json!(null),
        }
    }
}
