//! Exhaustive fault-placement stratum of C11 (DESIGN.md §3.1): for three fixed projects,
//! every single fault placement (target file x applicable fault kind) and every pair of
//! placements on two different targets, crossed with fail-fast on/off and, where it makes
//! sense, in-place vs output location. The first indices of every C11 batch walk this
//! list in canonical order; it is finite and enumerated completely.

use crate::{
    corpus,
    gen,
    model::{Backend, Body, C11Scenario, ConfigSource, FsEntry, OptSpec, SourceMeta},
    simfs::{FaultKind, FaultRule},
};

#[derive(Clone, Copy, Debug, PartialEq, Eq)]
enum Placement {
    Syntax,
    Utf8,
    MissingRequire,
    BadData,
    Get(FaultKind),
    GetOnce(FaultKind),
    Write(FaultKind),
    WriteOnce(FaultKind),
    DirAtMirror,
    FileAboveMirror,
}

struct Template {
    input: &'static str,
    input_is_file: bool,
    bundle: bool,
    /// (path, requires)
    sources: Vec<(&'static str, Vec<&'static str>)>,
    data: Vec<(&'static str, &'static str)>,
    other: Vec<(&'static str, &'static str)>,
}

fn templates() -> Vec<Template> {
    vec![
        Template {
            input: "src",
            input_is_file: false,
            bundle: false,
            sources: vec![
                ("src/a.lua", vec![]),
                ("src/sub/b.luau", vec![]),
                ("src/sub/deep/c d.lua", vec![]),
                ("src/été.lua", vec![]),
            ],
            data: vec![],
            other: vec![("src/notes.txt", "not lua\n"), ("out/foreign.txt", "foreign\n")],
        },
        Template {
            input: "src",
            input_is_file: false,
            bundle: true,
            sources: vec![
                ("src/main.lua", vec!["src/lib/a.lua", "src/lib/b.lua"]),
                ("src/lib/a.lua", vec!["src/lib/b.lua", "src/data/cfg.json"]),
                ("src/lib/b.lua", vec![]),
                ("src/other.lua", vec![]),
            ],
            data: vec![("src/data/cfg.json", "{ \"marker\": \"cfg_0\", \"n\": [1, 2] }\n")],
            other: vec![("out/keep/me.txt", "foreign\n")],
        },
        Template {
            input: "entry.lua",
            input_is_file: true,
            bundle: true,
            sources: vec![
                ("entry.lua", vec!["mods/x.lua", "mods/y.lua"]),
                ("mods/x.lua", vec!["mods/y.lua"]),
                ("mods/y.lua", vec![]),
            ],
            data: vec![],
            other: vec![],
        },
    ]
}

fn placements_for(t: &Template, path: &str, is_data: bool, expected: bool, in_place: bool) -> Vec<Placement> {
    let mut out = Vec::new();
    if is_data {
        out.push(Placement::BadData);
        out.push(Placement::Get(FaultKind::GetEio));
        out.push(Placement::Get(FaultKind::GetNotFound));
        return out;
    }
    out.push(Placement::Syntax);
    out.push(Placement::Utf8);
    for k in [FaultKind::GetNotFound, FaultKind::GetEio, FaultKind::GetEacces] {
        out.push(Placement::Get(k));
        out.push(Placement::GetOnce(k));
    }
    if t.bundle {
        out.push(Placement::MissingRequire);
    }
    if expected {
        for k in [FaultKind::WriteEacces, FaultKind::WriteEnospc, FaultKind::WriteTorn] {
            out.push(Placement::Write(k));
            out.push(Placement::WriteOnce(k));
        }
        if !in_place {
            out.push(Placement::DirAtMirror);
            if gen::parent(path) != t.input && !t.input_is_file {
                out.push(Placement::FileAboveMirror);
            }
        }
    }
    out
}

/// All (target, placement) pairs of a template variant.
fn single_placements(t: &Template, in_place: bool) -> Vec<(String, Placement)> {
    let mut out = Vec::new();
    for (i, (path, _)) in t.sources.iter().enumerate() {
        let expected = !t.input_is_file || i == 0;
        for p in placements_for(t, path, false, expected, in_place) {
            out.push(((*path).to_owned(), p));
        }
    }
    for (path, _) in &t.data {
        for p in placements_for(t, path, true, false, in_place) {
            out.push(((*path).to_owned(), p));
        }
    }
    out
}

struct Variant {
    template: usize,
    in_place: bool,
    fail_fast: bool,
}

fn variants() -> Vec<Variant> {
    let mut out = Vec::new();
    for (ti, t) in templates().iter().enumerate() {
        for in_place in [false, true] {
            if in_place && t.bundle {
                continue; // bundling in place is excluded (DESIGN.md §3.1)
            }
            for fail_fast in [false, true] {
                out.push(Variant {
                    template: ti,
                    in_place,
                    fail_fast,
                });
            }
        }
    }
    out
}

/// (variant index, placements) of every enumerated scenario, in canonical order:
/// the fault-free run, every single placement, every pair on two different targets
/// (pairs only without fail-fast and with an output location).
fn plan() -> Vec<(usize, Vec<(String, Placement)>)> {
    let ts = templates();
    let mut out = Vec::new();
    for (vi, v) in variants().iter().enumerate() {
        let singles = single_placements(&ts[v.template], v.in_place);
        out.push((vi, Vec::new()));
        for s in &singles {
            out.push((vi, vec![s.clone()]));
        }
        if !v.fail_fast && !v.in_place {
            for i in 0..singles.len() {
                for j in (i + 1)..singles.len() {
                    if singles[i].0 != singles[j].0 {
                        out.push((vi, vec![singles[i].clone(), singles[j].clone()]));
                    }
                }
            }
        }
    }
    out
}

pub fn count() -> usize {
    static COUNT: std::sync::OnceLock<usize> = std::sync::OnceLock::new();
    *COUNT.get_or_init(|| plan().len())
}

/// Only the fault-free runs and single placements (the part walked by the quick tier).
pub fn count_singles() -> usize {
    static COUNT: std::sync::OnceLock<usize> = std::sync::OnceLock::new();
    *COUNT.get_or_init(|| plan().iter().filter(|(_, p)| p.len() <= 1).count())
}

fn nth(index: usize, singles_only: bool) -> Option<(usize, Vec<(String, Placement)>)> {
    static PLAN: std::sync::OnceLock<Vec<(usize, Vec<(String, Placement)>)>> = std::sync::OnceLock::new();
    let plan = PLAN.get_or_init(plan);
    if singles_only {
        plan.iter().filter(|(_, p)| p.len() <= 1).nth(index).cloned()
    } else {
        plan.get(index).cloned()
    }
}

pub fn enumerated(index: usize, singles_only: bool) -> Option<C11Scenario> {
    let (vi, placements) = nth(index, singles_only)?;
    let ts = templates();
    let vs = variants();
    let v = &vs[vi];
    let t = &ts[v.template];
    let config = if t.bundle {
        "{\"bundle\":{\"require_mode\":\"path\"},\"rules\":[\"remove_comments\",\"remove_spaces\"]}"
    } else {
        "{\"rules\":[\"remove_comments\",\"remove_spaces\",\"compute_expression\"]}"
    };
    let output: Option<String> = if v.in_place {
        None
    } else if t.input_is_file {
        Some("dist/bundle.lua".to_owned())
    } else {
        Some("out".to_owned())
    };
    let opts = OptSpec {
        input: t.input.to_owned(),
        output: output.clone(),
        config: ConfigSource::Default,
        fail_fast: v.fail_fast,
        generator_override: None,
        include_deps: None,
    };
    let mirror = |source: &str| -> String {
        match &output {
            None => source.to_owned(),
            Some(out) if t.input_is_file => out.clone(),
            Some(out) => gen::join(out, source.strip_prefix("src/").unwrap_or(source)),
        }
    };
    let mut entries: Vec<FsEntry> = Vec::new();
    let mut metas: Vec<SourceMeta> = Vec::new();
    let mut bad_files: Vec<String> = Vec::new();
    let mut faults: Vec<FaultRule> = Vec::new();
    let mut transient = false;
    for (i, (path, requires)) in t.sources.iter().enumerate() {
        let mut requires: Vec<String> = requires.iter().map(|r| (*r).to_owned()).collect();
        let mine: Vec<Placement> = placements
            .iter()
            .filter(|(p, _)| p == path)
            .map(|(_, k)| *k)
            .collect();
        if mine.contains(&Placement::MissingRequire) {
            requires.push(gen::join(gen::parent(path), "does-not-exist.lua"));
            bad_files.push((*path).to_owned());
        }
        let texts: Vec<String> = requires
            .iter()
            .map(|to| gen::relative_require(path, to))
            .collect();
        let marker = format!("e{}_{}", index, i);
        let mut body = Body::Text(corpus::render_lua(
            corpus::BODIES[(i * 7 + 1) % corpus::BODIES.len()],
            &marker,
            &texts,
        ));
        if mine.contains(&Placement::Syntax) {
            body = Body::Text(
                corpus::SYNTAX_ERRORS[i % corpus::SYNTAX_ERRORS.len()]
                    .replace("{M}", &format!("\"{}\"", marker)),
            );
            bad_files.push((*path).to_owned());
        }
        if mine.contains(&Placement::Utf8) {
            let mut bytes = format!("mark(\"{}\")\nlocal s = \"", marker).into_bytes();
            bytes.extend_from_slice(&[0xff, 0xfe]);
            bytes.extend_from_slice(b"\"\nreturn s\n");
            body = Body::from_bytes(&bytes);
            bad_files.push((*path).to_owned());
        }
        entries.push(FsEntry {
            path: (*path).to_owned(),
            body,
        });
        metas.push(SourceMeta {
            path: (*path).to_owned(),
            requires,
        });
        for k in &mine {
            match k {
                Placement::Get(kind) => faults.push(FaultRule {
                    kind: *kind,
                    path: (*path).to_owned(),
                    nth: None,
                    epoch: None,
                }),
                Placement::GetOnce(kind) => {
                    transient = true;
                    faults.push(FaultRule {
                        kind: *kind,
                        path: (*path).to_owned(),
                        nth: Some(0),
                        epoch: None,
                    })
                }
                Placement::Write(kind) => faults.push(FaultRule {
                    kind: *kind,
                    path: mirror(path),
                    nth: None,
                    epoch: None,
                }),
                Placement::WriteOnce(kind) => {
                    transient = true;
                    faults.push(FaultRule {
                        kind: *kind,
                        path: mirror(path),
                        nth: Some(0),
                        epoch: None,
                    })
                }
                Placement::DirAtMirror => entries.push(FsEntry {
                    path: mirror(path),
                    body: Body::Dir,
                }),
                Placement::FileAboveMirror => entries.push(FsEntry {
                    path: gen::parent(&mirror(path)).to_owned(),
                    body: Body::Text("a file in the way\n".to_owned()),
                }),
                _ => {}
            }
        }
    }
    for (path, content) in &t.data {
        let mine: Vec<Placement> = placements
            .iter()
            .filter(|(p, _)| p == path)
            .map(|(_, k)| *k)
            .collect();
        let mut body = Body::Text((*content).to_owned());
        if mine.contains(&Placement::BadData) {
            body = Body::Text("{ \"marker\": ".to_owned());
            bad_files.push((*path).to_owned());
        }
        for k in &mine {
            if let Placement::Get(kind) = k {
                faults.push(FaultRule {
                    kind: *kind,
                    path: (*path).to_owned(),
                    nth: None,
                    epoch: None,
                });
            }
        }
        entries.push(FsEntry {
            path: (*path).to_owned(),
            body,
        });
    }
    for (path, content) in &t.other {
        // a blocker placed by a fault wins over foreign content at the same place
        if !entries.iter().any(|e| e.path == *path) {
            entries.push(FsEntry {
                path: (*path).to_owned(),
                body: Body::Text((*content).to_owned()),
            });
        }
    }
    entries.push(FsEntry {
        path: ".darklua.json".to_owned(),
        body: Body::Text(config.to_owned()),
    });
    // a file entry cannot have entries below it
    let file_paths: Vec<String> = entries
        .iter()
        .filter(|e| e.body != Body::Dir)
        .map(|e| e.path.clone())
        .collect();
    entries.retain(|e| !file_paths.iter().any(|f| e.path.starts_with(&format!("{}/", f))));
    bad_files.sort();
    bad_files.dedup();
    Some(C11Scenario {
        seed: index as u64,
        backend: Backend::SimFs,
        entries,
        opts,
        sources: metas,
        bad_files,
        unwritable: Vec::new(),
        faults,
        transient,
        walk_seed: 11 + index as u64,
        hash_seed: 23 + index as u64,
        alt_walk_seed: 101 + index as u64,
        alt_hash_seed: 211 + index as u64,
        keep_bad_in_reference: false,
        maybe_bad: Vec::new(),
        trace_logs: false,
    })
}
