//! Batch driver: seeded search over many simulated runs on all cores, merged in index
//! order (so the result of a batch does not depend on the worker count), shrinking,
//! replay files, known findings, evidence.

use std::{
    collections::{BTreeMap, BTreeSet},
    fs,
    io::Write,
    path::{Path, PathBuf},
    sync::{
        atomic::{AtomicUsize, Ordering},
        Mutex,
    },
    time::Instant,
};

use serde::{Deserialize, Serialize};
use serde_json::json;

use crate::{
    model::{Replay, Scenario, Violation, ViolationSig},
    rng::mix,
};

pub static OUT: Mutex<Option<fs::File>> = Mutex::new(None);

/// Print a line on the harness's real stdout (fd 1 is redirected to /dev/null because
/// code under test prints).
pub fn out_line(line: &str) {
    let mut guard = OUT.lock().unwrap();
    match guard.as_mut() {
        Some(file) => {
            let _ = writeln!(file, "{}", line);
        }
        None => println!("{}", line),
    }
}

#[macro_export]
macro_rules! outln {
    ($($arg:tt)*) => { $crate::driver::out_line(&format!($($arg)*)) };
}

pub fn verif_dir() -> PathBuf {
    std::env::var_os("VERIF_DIR")
        .map(PathBuf::from)
        .unwrap_or_else(|| PathBuf::from("/verif"))
}

/// How many runs per violation signature are kept for classification, and how many of them
/// are shrunk at most while all of them turn out to be listed findings.
const MAX_CANDIDATES_PER_SIGNATURE: usize = 48;
const MAX_SHRINKS_PER_SIGNATURE: usize = 8;

#[derive(Clone, Debug, Serialize, Deserialize)]
pub struct KnownFinding {
    pub property: String,
    pub id: String,
    /// "open" | "fixed"
    pub status: String,
    pub clause: String,
    pub class: String,
    /// sorted multiset of operation / fault kinds of the minimised scenario; empty = any
    #[serde(default)]
    pub kinds: Vec<String>,
    pub description: String,
    #[serde(default)]
    pub commit: Option<String>,
    /// name of the generator avoidance that steers most runs away from this finding
    #[serde(default)]
    pub avoid: Option<String>,
    /// kinds that must all be present in the minimised scenario (used instead of the exact
    /// multiset `kinds` when the shape of the history varies)
    #[serde(default)]
    pub requires_kinds: Vec<String>,
}

pub fn load_known_findings() -> Vec<KnownFinding> {
    let path = verif_dir().join("known_findings.json");
    match fs::read_to_string(&path) {
        Ok(text) => serde_json::from_str(&text).unwrap_or_else(|err| {
            out_line(&format!("HARNESS-ERROR: cannot parse {}: {}", path.display(), err));
            std::process::exit(2);
        }),
        Err(_) => Vec::new(),
    }
}

/// One simulated run as seen by the driver.
pub struct RunReport {
    pub scenario: Scenario,
    pub violations: Vec<Violation>,
    pub stats: serde_json::Value,
    pub io_signature: u64,
    pub nontrivial: bool,
    pub executions: u64,
    pub counters: BTreeMap<String, u64>,
}

pub trait Property: Sync {
    fn id(&self) -> &'static str;
    fn level(&self) -> &'static str;
    /// Run `index` of the batch.
    fn run(&self, seed: u64, index: usize, tier: &str) -> Result<RunReport, String>;
    /// Re-check a scenario; returns its violations.
    fn recheck(&self, scenario: &Scenario) -> Result<Vec<Violation>, String>;
    /// Smaller variants of a scenario, most aggressive first.
    fn shrink_candidates(&self, scenario: &Scenario) -> Vec<Scenario>;
    /// Multiset of operation/fault kinds used for matching known findings.
    fn kinds(&self, scenario: &Scenario) -> Vec<String>;
    fn rule_text(&self) -> String;
    fn assumptions(&self) -> Vec<String>;
    fn components(&self) -> serde_json::Value;
    fn runs_for(&self, tier: &str) -> usize;
    fn sample(&self, scenario: &Scenario) -> serde_json::Value;
    /// Additional evidence (e.g. stub calibration status).
    fn extra_evidence(&self) -> serde_json::Value {
        serde_json::Value::Null
    }
    /// Upper bound on shrink re-executions for this scenario (real-time layers are slow).
    fn shrink_budget(&self, _scenario: &Scenario, default: usize) -> usize {
        default
    }
}

pub fn shrink(prop: &dyn Property, scenario: Scenario, sig: &ViolationSig, budget: usize) -> (Scenario, Violation, usize) {
    let mut current = scenario;
    let mut current_violation: Option<Violation> = None;
    let mut checks = 0usize;
    loop {
        let mut improved = false;
        for candidate in prop.shrink_candidates(&current) {
            if checks >= budget {
                break;
            }
            checks += 1;
            if let Ok(violations) = prop.recheck(&candidate) {
                if let Some(v) = violations.into_iter().find(|v| v.sig == *sig) {
                    current = candidate;
                    current_violation = Some(v);
                    improved = true;
                    break;
                }
            }
        }
        if !improved || checks >= budget {
            break;
        }
    }
    let violation = match current_violation {
        Some(v) => v,
        None => prop
            .recheck(&current)
            .ok()
            .and_then(|vs| vs.into_iter().find(|v| v.sig == *sig))
            .unwrap_or_else(|| Violation {
                sig: sig.clone(),
                message: "(not reproduced while shrinking)".to_owned(),
            }),
    };
    (current, violation, checks)
}

pub struct BatchOutcome {
    pub exit_code: i32,
}

/// Debugging aid: start the batch at another index (`VERIF_FIRST_INDEX`).
fn first_index() -> usize {
    std::env::var("VERIF_FIRST_INDEX")
        .ok()
        .and_then(|v| v.parse().ok())
        .unwrap_or(0)
}

/// What one run contributes to a batch, in a form that can cross a process boundary.
#[derive(Clone, Debug, Serialize, Deserialize)]
pub struct Record {
    pub index: usize,
    pub error: Option<String>,
    pub io_signature: u64,
    pub nontrivial: bool,
    pub executions: u64,
    pub counters: BTreeMap<String, u64>,
    pub stats: serde_json::Value,
    pub violations: Vec<(ViolationSig, String)>,
    /// only kept for violating runs
    pub scenario: Option<Scenario>,
    /// only kept for sample candidates
    pub sample: Option<serde_json::Value>,
}

fn to_record(prop: &dyn Property, index: usize, result: Result<RunReport, String>, want_sample: bool) -> Record {
    match result {
        Err(err) => Record {
            index,
            error: Some(err),
            io_signature: 0,
            nontrivial: false,
            executions: 0,
            counters: BTreeMap::new(),
            stats: serde_json::Value::Null,
            violations: Vec::new(),
            scenario: None,
            sample: None,
        },
        Ok(report) => {
            let sample = if want_sample && (report.nontrivial || index < 2) {
                Some(prop.sample(&report.scenario))
            } else {
                None
            };
            let violating = !report.violations.is_empty();
            Record {
                index,
                error: None,
                io_signature: report.io_signature,
                nontrivial: report.nontrivial,
                executions: report.executions,
                counters: report.counters,
                stats: report.stats,
                violations: report
                    .violations
                    .into_iter()
                    .map(|v| (v.sig, v.message))
                    .collect(),
                scenario: if violating { Some(report.scenario) } else { None },
                sample,
            }
        }
    }
}

/// Run the indices `k, k + shards, k + 2*shards, ...` of a batch in this process and
/// write one JSON record per line. Used by the multi-process driver: thread creation in
/// one address space serialises on the kernel's mmap lock, separate processes do not.
pub fn run_shard(prop: &dyn Property, tier: &str, seed: u64, total: usize, k: usize, shards: usize, out: &Path) -> i32 {
    let mut file = match fs::File::create(out) {
        Ok(file) => std::io::BufWriter::new(file),
        Err(err) => {
            out_line(&format!("HARNESS-ERROR: cannot create {}: {}", out.display(), err));
            return 2;
        }
    };
    let mut samples_left = 3;
    let mut index = k;
    while index < total {
        let result = prop.run(seed, first_index() + index, tier);
        let record = to_record(prop, index, result, samples_left > 0);
        if record.sample.is_some() {
            samples_left -= 1;
        }
        if serde_json::to_writer(&mut file, &record).is_err() || writeln!(file).is_err() {
            return 2;
        }
        index += shards;
    }
    if file.flush().is_err() {
        return 2;
    }
    0
}

fn run_shards(prop: &dyn Property, tier: &str, seed: u64, total: usize, shards: usize) -> Result<Vec<Record>, String> {
    let exe = std::env::current_exe().map_err(|e| format!("current_exe: {}", e))?;
    let mut dir = PathBuf::from(format!("/dev/shm/dvsim-batch-{}", std::process::id()));
    let _ = fs::remove_dir_all(&dir);
    if fs::create_dir_all(&dir).is_err() {
        dir = std::env::temp_dir().join(format!("dvsim-batch-{}", std::process::id()));
        let _ = fs::remove_dir_all(&dir);
        fs::create_dir_all(&dir).map_err(|e| format!("mkdir {}: {}", dir.display(), e))?;
    }
    let mut children = Vec::new();
    for k in 0..shards {
        let out = dir.join(format!("shard-{}.jsonl", k));
        let child = std::process::Command::new(&exe)
            .arg("shard")
            .arg(prop.id())
            .arg(tier)
            .arg(total.to_string())
            .arg(k.to_string())
            .arg(shards.to_string())
            .arg(&out)
            .env("VERIF_SEED", seed.to_string())
            .stdin(std::process::Stdio::null())
            .stdout(std::process::Stdio::null())
            .stderr(std::process::Stdio::null())
            .spawn()
            .map_err(|e| format!("spawn shard: {}", e))?;
        children.push((k, out, child));
    }
    let mut records: Vec<Record> = Vec::with_capacity(total);
    let mut failure: Option<String> = None;
    for (k, out, mut child) in children {
        let status = child.wait().map_err(|e| format!("wait shard {}: {}", k, e))?;
        if !status.success() {
            failure = Some(format!("shard {} exited with {:?}", k, status.code()));
        }
        if let Ok(text) = fs::read_to_string(&out) {
            for line in text.lines() {
                match serde_json::from_str::<Record>(line) {
                    Ok(record) => records.push(record),
                    Err(err) => failure = Some(format!("shard {}: bad record: {}", k, err)),
                }
            }
        }
    }
    let _ = fs::remove_dir_all(&dir);
    if let Some(failure) = failure {
        return Err(failure);
    }
    records.sort_by_key(|r| r.index);
    if records.len() != total || records.iter().enumerate().any(|(i, r)| r.index != i) {
        return Err(format!("shards returned {} records for {} runs", records.len(), total));
    }
    Ok(records)
}

pub fn run_batch(prop: &dyn Property, tier: &str, seed: u64) -> BatchOutcome {
    let started = Instant::now();
    let total = std::env::var("VERIF_RUNS")
        .ok()
        .and_then(|v| v.parse().ok())
        .unwrap_or_else(|| prop.runs_for(tier));
    let workers = std::env::var("VERIF_WORKERS")
        .ok()
        .and_then(|v| v.parse().ok())
        .unwrap_or_else(|| {
            std::thread::available_parallelism()
                .map(|n| n.get())
                .unwrap_or(4)
        });
    out_line(&format!(
        "VERIF_SEED={} property={} tier={} runs={} workers={}",
        seed,
        prop.id(),
        tier,
        total,
        workers
    ));
    if let Err(err) = crate::exec::hash_seam_selfcheck() {
        out_line(&format!("HARNESS-ERROR: {}", err));
        return BatchOutcome { exit_code: 2 };
    }
    let procs: usize = std::env::var("VERIF_PROCS")
        .ok()
        .and_then(|v| v.parse().ok())
        .unwrap_or(workers);
    let records: Vec<Record> = if procs > 1 && total >= 64 {
        match run_shards(prop, tier, seed, total, procs) {
            Ok(records) => records,
            Err(err) => {
                out_line(&format!("HARNESS-ERROR: {}", err));
                return BatchOutcome { exit_code: 2 };
            }
        }
    } else {
        let next = AtomicUsize::new(0);
        let results: Mutex<Vec<Option<Record>>> = Mutex::new((0..total).map(|_| None).collect());
        std::thread::scope(|scope| {
            for _ in 0..workers {
                scope.spawn(|| loop {
                    let index = next.fetch_add(1, Ordering::Relaxed);
                    if index >= total {
                        break;
                    }
                    let report = prop.run(seed, first_index() + index, tier);
                    let record = to_record(prop, index, report, true);
                    results.lock().unwrap()[index] = Some(record);
                });
            }
        });
        results
            .into_inner()
            .unwrap()
            .into_iter()
            .map(|r| r.expect("every index was run"))
            .collect()
    };

    // ---- merge in index order
    let mut harness_errors: Vec<String> = Vec::new();
    let mut executions = 0u64;
    let mut signatures: BTreeSet<u64> = BTreeSet::new();
    let mut nontrivial_signatures: BTreeSet<u64> = BTreeSet::new();
    let mut counters: BTreeMap<String, u64> = BTreeMap::new();
    let mut samples: Vec<serde_json::Value> = Vec::new();
    // per signature: the first runs that showed it (in index order) and the total count
    let mut first_by_sig: BTreeMap<ViolationSig, (Vec<(usize, Scenario, Violation)>, usize)> =
        BTreeMap::new();
    let mut violating_runs = 0usize;
    for (index, record) in records.into_iter().enumerate() {
        match record.error.clone() {
            Some(err) => harness_errors.push(format!("run {}: {}", index, err)),
            None => {
                let report = record;
                executions += report.executions;
                signatures.insert(report.io_signature);
                if report.nontrivial {
                    nontrivial_signatures.insert(report.io_signature);
                }
                for (k, v) in report.counters {
                    *counters.entry(k).or_insert(0) += v;
                }
                if samples.len() < 3 {
                    if let Some(sample) = report.sample {
                        samples.push(json!({
                            "run_index": index,
                            "scenario": sample,
                            "stats": report.stats,
                        }));
                    }
                }
                if !report.violations.is_empty() {
                    violating_runs += 1;
                }
                let scenario = report.scenario;
                for (sig, message) in report.violations {
                    let violation = Violation { sig, message };
                    let scenario = match scenario.clone() {
                        Some(scenario) => scenario,
                        None => continue,
                    };
                    let slot = first_by_sig.entry(violation.sig.clone()).or_insert((Vec::new(), 0));
                    slot.1 += 1;
                    if slot.0.len() < MAX_CANDIDATES_PER_SIGNATURE {
                        slot.0.push((index, scenario, violation));
                    }
                }
            }
        }
    }

    // ---- shrink, classify against known findings, write replay files
    let known = load_known_findings();
    let replay_dir = verif_dir().join("replays");
    let _ = fs::create_dir_all(&replay_dir);
    let mut new_violations = 0usize;
    let mut known_hits: BTreeMap<String, (String, usize)> = BTreeMap::new();
    let mut violation_summaries: Vec<serde_json::Value> = Vec::new();
    let shrink_budget: usize = std::env::var("VERIF_SHRINK_BUDGET")
        .ok()
        .and_then(|v| v.parse().ok())
        .unwrap_or(400);
    // An open known finding must not hide another violation with the same clause and
    // class: a run whose scenario cannot shrink to a listed finding (it lacks a kind the
    // finding needs; shrinking only removes) is taken first; otherwise the first runs are
    // shrunk one after the other until one does not match a listed finding.
    let mut work: Vec<(ViolationSig, usize, Scenario, usize)> = Vec::new();
    for (sig, (candidates, count)) in first_by_sig {
        let open_for_sig: Vec<&KnownFinding> = known
            .iter()
            .filter(|k| {
                k.status == "open"
                    && k.property == sig.property
                    && k.clause == sig.clause
                    && k.class == sig.class
            })
            .collect();
        let may_be_known = |scenario: &Scenario| -> bool {
            let raw = prop.kinds(scenario);
            open_for_sig.iter().any(|k| {
                k.requires_kinds.iter().all(|r| raw.contains(r))
                    && k.kinds.iter().all(|r| raw.contains(r))
            })
        };
        let surely_new = candidates.iter().position(|(_, scenario, _)| !may_be_known(scenario));
        let mut ordered: Vec<(usize, Scenario, Violation)> = candidates;
        if let Some(pos) = surely_new {
            let chosen = ordered.remove(pos);
            ordered.insert(0, chosen);
        }
        let limit = if open_for_sig.is_empty() { 1 } else { MAX_SHRINKS_PER_SIGNATURE };
        for (index, scenario, _) in ordered.into_iter().take(limit) {
            work.push((sig.clone(), index, scenario, count));
        }
    }
    let mut settled: BTreeSet<ViolationSig> = BTreeSet::new();
    for (sig, index, scenario, count) in work {
        if settled.contains(&sig) {
            continue;
        }
        let budget = prop.shrink_budget(&scenario, shrink_budget);
        let (small, violation, checks) = shrink(prop, scenario, &sig, budget);
        let kinds = prop.kinds(&small);
        let matched = known.iter().find(|k| {
            k.status == "open"
                && k.property == sig.property
                && k.clause == sig.clause
                && k.class == sig.class
                && (k.kinds.is_empty() || k.kinds == kinds)
                && k.requires_kinds.iter().all(|r| kinds.contains(r))
        });
        if matched.is_none() {
            settled.insert(sig.clone());
        } else if known_hits.contains_key(&matched.unwrap().id) {
            // another run of a finding that is already reported for this batch
            continue;
        }
        // confirm the minimised scenario replays
        let replays = prop
            .recheck(&small)
            .map(|vs| vs.iter().any(|v| v.sig == sig))
            .unwrap_or(false);
        if !replays {
            harness_errors.push(format!(
                "violation {:?} of run {} does not replay after shrinking (forgotten nondeterminism?)",
                sig, index
            ));
            continue;
        }
        let name = format!(
            "{}-{}-{}-{}.json",
            sig.property,
            seed,
            index,
            sanitize(&format!("{}-{}", sig.clause, sig.class))
        );
        let path = replay_dir.join(name);
        let replay = Replay {
            scenario: small.clone(),
            expected: sig.clone(),
            message: violation.message.clone(),
            found_by: format!(
                "VERIF_SEED={} tier={} run_index={} (same signature in {} violation reports; {} shrink checks)",
                seed, tier, index, count, checks
            ),
        };
        let _ = fs::write(&path, serde_json::to_string_pretty(&replay).unwrap());
        violation_summaries.push(json!({
            "signature": sig,
            "kinds": kinds,
            "first_run_index": index,
            "occurrences": count,
            "known_finding": matched.map(|k| k.id.clone()),
            "replay": path.display().to_string(),
            "message": violation.message,
        }));
        match matched {
            Some(k) => {
                known_hits
                    .entry(k.id.clone())
                    .or_insert((k.description.clone(), 0))
                    .1 += count;
            }
            None => {
                new_violations += 1;
                out_line(&format!(
                    "VIOLATION property={} replay={}",
                    sig.property,
                    path.display()
                ));
                out_line(&format!(
                    "  clause={} class={} kinds={:?}\n  {}",
                    sig.clause,
                    sig.class,
                    kinds,
                    violation.message.replace('\n', "\n  ")
                ));
            }
        }
    }
    for (id, (description, count)) in &known_hits {
        out_line(&format!(
            "KNOWN-FINDING: property={} {} [{}] ({} reports this run)",
            prop.id(),
            description,
            id,
            count
        ));
    }
    // open findings are always listed, whether or not this run happened to hit them
    for k in known.iter().filter(|k| k.status == "open" && k.property == prop.id()) {
        if !known_hits.contains_key(&k.id) {
            out_line(&format!(
                "KNOWN-FINDING: property={} {} [{}] (not sampled by this run)",
                prop.id(),
                k.description,
                k.id
            ));
        }
    }

    let wall = started.elapsed().as_secs_f64();
    // ---- evidence
    let evidence = json!({
        "property_id": prop.id(),
        "tier": tier,
        "seed": seed,
        "level": prop.level(),
        "wall_s": wall,
        "violations": new_violations,
        "coverage": {
            "evaluations": executions,
            "simulated_runs": total,
            "distinct_nontrivial": nontrivial_signatures.len(),
            "distinct_io_signatures": signatures.len(),
            "rule": prop.rule_text(),
            "samples": samples,
            "exhaustive": false,
            "runs_per_hour": if wall > 0.0 { (total as f64 / wall * 3600.0) as u64 } else { 0 },
            "executions_per_hour": if wall > 0.0 { (executions as f64 / wall * 3600.0) as u64 } else { 0 },
            "counters": counters,
            "violating_runs": violating_runs,
            "violation_signatures": violation_summaries,
            "known_findings_hit": known_hits.iter().map(|(id, (_, c))| json!({"id": id, "reports": c})).collect::<Vec<_>>(),
            "harness_errors": harness_errors,
            "components": prop.components(),
            "extra": prop.extra_evidence(),
            "workers": workers,
        },
        "assumptions": prop.assumptions(),
    });
    let evidence_dir = verif_dir().join("evidence");
    let _ = fs::create_dir_all(&evidence_dir);
    let evidence_path = evidence_dir.join(format!("{}.json", prop.id()));
    if let Err(err) = fs::write(&evidence_path, serde_json::to_string_pretty(&evidence).unwrap()) {
        out_line(&format!("HARNESS-ERROR: cannot write {}: {}", evidence_path.display(), err));
        return BatchOutcome { exit_code: 2 };
    }
    out_line(&format!(
        "{}: {} runs, {} executions, {} distinct I/O signatures ({} non-trivial), {} new violation signature(s), {} known, {:.1}s",
        prop.id(),
        total,
        executions,
        signatures.len(),
        nontrivial_signatures.len(),
        new_violations,
        known_hits.len(),
        wall
    ));
    if !harness_errors.is_empty() {
        for err in harness_errors.iter().take(10) {
            out_line(&format!("HARNESS-ERROR: {}", err));
        }
        if new_violations == 0 {
            return BatchOutcome { exit_code: 2 };
        }
    }
    BatchOutcome {
        exit_code: if new_violations > 0 { 1 } else { 0 },
    }
}

fn sanitize(s: &str) -> String {
    s.chars()
        .map(|c| if c.is_ascii_alphanumeric() || c == '-' { c } else { '_' })
        .take(60)
        .collect()
}

pub fn run_seed(seed: u64, property: &str, tier: &str, index: usize) -> u64 {
    // the tier does not influence the scenario of a given index: thorough = more indices
    let _ = tier;
    mix(mix(seed, crate::rng::hash_str(0, property)), index as u64)
}

pub fn replay_file(props: &[&dyn Property], path: &Path) -> i32 {
    let text = match fs::read_to_string(path) {
        Ok(text) => text,
        Err(err) => {
            out_line(&format!("HARNESS-ERROR: cannot read {}: {}", path.display(), err));
            return 2;
        }
    };
    let replay: Replay = match serde_json::from_str(&text) {
        Ok(replay) => replay,
        Err(err) => {
            out_line(&format!("HARNESS-ERROR: cannot parse {}: {}", path.display(), err));
            return 2;
        }
    };
    let id = match &replay.scenario {
        Scenario::C10(_) => "C10",
        Scenario::C11(_) => "C11",
    };
    let prop = props.iter().find(|p| p.id() == id).expect("property");
    match prop.recheck(&replay.scenario) {
        Err(err) => {
            out_line(&format!("HARNESS-ERROR: {}", err));
            2
        }
        Ok(violations) => {
            for v in &violations {
                out_line(&format!(
                    "  found: clause={} class={}\n    {}",
                    v.sig.clause,
                    v.sig.class,
                    v.message.replace('\n', "\n    ")
                ));
            }
            if violations.iter().any(|v| v.sig == replay.expected) {
                out_line(&format!(
                    "VIOLATION property={} replay={}",
                    id,
                    path.display()
                ));
                1
            } else {
                out_line(&format!(
                    "NOT-REPRODUCED property={} expected clause={} class={} ({} other violation(s))",
                    id,
                    replay.expected.clause,
                    replay.expected.class,
                    violations.len()
                ));
                if violations.is_empty() {
                    0
                } else {
                    1
                }
            }
        }
    }
}

/// Determinism self-test support: run the batch without shrinking and write one line per
/// run (index, I/O signature, digest of scenario + violations + stats) to `path`.
pub fn digest_batch(prop: &dyn Property, tier: &str, seed: u64, total: usize, workers: usize, path: &Path) -> i32 {
    // VERIF_DIGEST_FROM=<index>: only the tail of the batch (the strata appended at the end)
    let from: usize = std::env::var("VERIF_DIGEST_FROM")
        .ok()
        .and_then(|v| v.parse().ok())
        .unwrap_or(0)
        .min(total);
    let next = AtomicUsize::new(from);
    let lines: Mutex<Vec<Option<String>>> = Mutex::new((0..total).map(|_| None).collect());
    std::thread::scope(|scope| {
        for _ in 0..workers {
            scope.spawn(|| loop {
                let index = next.fetch_add(1, Ordering::Relaxed);
                if index >= total {
                    break;
                }
                let line = match prop.run(seed, index, tier) {
                    Ok(report) => {
                        let scenario = serde_json::to_string(&report.scenario).unwrap_or_default();
                        let mut text = String::new();
                        for v in &report.violations {
                            text.push_str(&format!("{:?}|{}\n", v.sig, v.message));
                        }
                        let counters = serde_json::to_string(&report.counters).unwrap_or_default();
                        format!(
                            "{} {:016x} {:016x} {:016x} {:016x} {}",
                            index,
                            report.io_signature,
                            crate::rng::hash_str(1, &scenario),
                            crate::rng::hash_str(2, &text),
                            crate::rng::hash_str(3, &format!("{}{}", report.stats, counters)),
                            report.violations.len()
                        )
                    }
                    Err(err) => format!("{} ERROR {}", index, err),
                };
                lines.lock().unwrap()[index] = Some(line);
            });
        }
    });
    let lines: Vec<String> = lines
        .into_inner()
        .unwrap()
        .into_iter()
        .map(|l| l.unwrap_or_default())
        .collect();
    match fs::write(path, lines.join("\n") + "\n") {
        Ok(()) => 0,
        Err(err) => {
            out_line(&format!("HARNESS-ERROR: cannot write {}: {}", path.display(), err));
            2
        }
    }
}
