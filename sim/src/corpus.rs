//! Small hand-written Lua/Luau modules. `{M}` is replaced by a unique marker literal
//! (`"m<file>_<version>"`) placed where no rule removes it (argument of a global call or a
//! returned table field), so any output byte string is attributable to one source version.
//! Every body ends with `return <one value>` so that each file can also be a bundled module.

pub const BODIES: &[&str] = &[
    // 0: smallest
    "mark({M})\nreturn {}\n",
    // 1: locals to rename, constant folds
    "local alpha = 1 + 2 * 3\nlocal beta = alpha .. 'x'\nmark({M}, alpha, beta)\nreturn { value = beta }\n",
    // 2: dead branches, unused while
    "local function run(a)\n\tif false then\n\t\tprint('never')\n\telseif true then\n\t\tmark({M})\n\tend\n\twhile false do\n\t\tprint('no')\n\tend\n\treturn a\nend\nreturn run\n",
    // 3: asserts with side effects, debug profiling
    "local function check(v)\n\tassert(v ~= nil, 'missing')\n\tdebug.profilebegin('scope')\n\tlocal r = assert(compute(v))\n\tdebug.profileend()\n\treturn r\nend\nmark({M})\nreturn check\n",
    // 4: compound assignments, continue
    "local total = 0\nfor i = 1, 10 do\n\tif i % 2 == 0 then\n\t\tcontinue\n\tend\n\ttotal += i\n\ttotal *= 2\nend\nmark({M}, total)\nreturn total\n",
    // 5: types
    "type Point = { x: number, y: number }\nexport type Shape = Point & { name: string }\nlocal function make(x: number, y: number): Point\n\treturn { x = x, y = y }\nend\nmark({M})\nreturn make\n",
    // 6: interpolated strings, if expressions
    "local name = 'world'\nlocal greeting = `hello {name}!`\nlocal kind = if #name > 3 then 'long' else 'short'\nmark({M}, greeting, kind)\nreturn greeting\n",
    // 7: comments and blank lines in many positions
    "-- leading comment\n--[[ block\ncomment ]]\nlocal a = 1 -- trailing\n\n\nlocal b = 2\n--[=[ another ]=]\nmark({M}, a, b) -- end\nreturn a + b\n",
    // 8: methods and fields
    "local Class = {}\nClass.__index = Class\nfunction Class.new(v)\n\treturn setmetatable({ v = v }, Class)\nend\nfunction Class:get()\n\treturn self.v\nend\nfunction Class:set(v)\n\tself['v'] = v\nend\nmark({M})\nreturn Class\n",
    // 9: unused variables, nil declarations, empty do
    "local unused = 5\nlocal a, b = nil, nil\ndo end\ndo\n\tlocal inner = call()\nend\nlocal used = mark({M})\nreturn used\n",
    // 10: floor division, luau numbers
    "local big = 1_000_000\nlocal bin = 0b1010\nlocal hex = 0xFF\nlocal q = big // 3\nmark({M}, q, bin, hex)\nreturn q\n",
    // 11: early return
    "local function f(x)\n\tif x then\n\t\treturn 1\n\tend\n\tdo\n\t\treturn 2\n\tend\n\tprint('unreachable')\nend\nmark({M})\nreturn f\n",
    // 12: local functions and global functions
    "local function helper(n)\n\tif n <= 0 then return 0 end\n\treturn n + helper(n - 1)\nend\nfunction globalFn(a, b)\n\treturn a + b\nend\nlocal function plain() return 1 end\nmark({M}, helper(3), plain())\nreturn helper\n",
    // 13: method calls, sqrt
    "local obj = { n = 4 }\nfunction obj:root()\n\treturn math.sqrt(self.n)\nend\nlocal r = obj:root()\nmark({M}, r)\nreturn r\n",
    // 14: group local assignment candidates
    "local a = 1\nlocal b = 2\nlocal c = a + b\nlocal d = fn()\nlocal e = 'x'\nmark({M}, a, b, c, d, e)\nreturn c\n",
    // 15: strings
    "local s1 = 'single'\nlocal s2 = \"double\"\nlocal s3 = [[long\nstring]]\nlocal s4 = 'esc\\n\\t\\\\'\nmark({M}, s1, s2, s3, s4)\nreturn s1 .. s2\n",
    // 16: varargs, multiple returns
    "local function pack(...)\n\treturn { n = select('#', ...), ... }\nend\nlocal function two()\n\treturn 1, 2\nend\nlocal x, y = two()\nmark({M}, pack(x, y))\nreturn pack\n",
    // 17: nested functions / closures / shadowing
    "local v = 1\nlocal function outer()\n\tlocal v = v + 1\n\treturn function()\n\t\tlocal v = v * 2\n\t\treturn v\n\tend\nend\nmark({M}, outer()())\nreturn outer\n",
    // 18: tables
    "local t = {\n\t1, 2, 3;\n\tkey = 'value',\n\t['other key'] = true,\n\t[10] = { nested = {} },\n}\nmark({M}, t)\nreturn t\n",
    // 19: repeat / while / numeric for / generic for
    "local n = 0\nrepeat\n\tn = n + 1\nuntil n > 3\nwhile n > 0 do\n\tn = n - 1\nend\nfor k, v in pairs({ a = 1 }) do\n\tn = n + v\nend\nmark({M}, n)\nreturn n\n",
    // 20: attribute + const-like
    "local function fast(x)\n\treturn x * 2\nend\nlocal r = fast(21)\nmark({M}, r)\nreturn r\n",
    // 21: global reads for inject_global_value
    "local debugMode = DEBUG\nif _G.DEBUG then\n\tprint('debug on')\nend\nif DEBUG == true then\n\tprint('literal')\nend\nmark({M}, debugMode)\nreturn debugMode\n",
    // 22: call parens
    "print('one')\nprint({ 1 })\nlocal s = tostring('x')\nmark({M})\nreturn s\n",
    // 23: long file on many lines (retain_lines interest)
    "local a = call(\n\t1,\n\t2,\n\t3\n)\n\nlocal b = {\n\ta,\n}\n\n\n-- gap\nmark(\n\t{M}\n)\nreturn b\n",
    // 24: returns a function directly
    "return function(...)\n\tmark({M}, ...)\n\treturn ...\nend\n",
    // 25: returns a string
    "mark({M})\nreturn 'just a string'\n",
    // 26: no trailing newline, CRLF
    "local x = 1\r\nmark({M}, x)\r\nreturn x",
    // 27: unicode in strings/comments
    "-- commentaire: é ü 漢字\nlocal s = 'héllo wörld 漢字'\nmark({M}, s)\nreturn s\n",
    // 28: type cast and generics
    "local function id<T>(value: T): T\n\treturn value\nend\nlocal n = (id(5) :: any) :: number\nmark({M}, n)\nreturn n\n",
    // 29: if with else-if chains computing constants
    "local r\nif 1 + 1 == 2 then\n\tr = 'a'\nelseif 2 > 3 then\n\tr = 'b'\nelse\n\tr = 'c'\nend\nmark({M}, r)\nreturn r\n",
    // 30: assert in expression position while `select` is shadowed (reserved globals path)
    "local select = mark\nlocal function check(...)\n\tlocal first = assert(compute(...))\n\treturn select(first), assert(other(first))\nend\nmark({M})\nreturn check\n",
    // 31: debug.profilebegin in expression position, string library shadowed
    "local string = { rep = mark }\nlocal t = { debug.profilebegin('x'), debug.profileend() }\nlocal s = `value {t}`\nmark({M}, s)\nreturn t\n",
    // 32: nested tables and long lines for column spans
    "local config = { alpha = { beta = { gamma = { delta = 'a very long string literal that will not fit on a short line' } } }, list = { 1, 2, 3, 4, 5, 6, 7, 8, 9, 10, 11, 12 } }\nmark({M}, config)\nreturn config\n",
    // 33: several exported types, generics, type packs (bundling renames and hoists them)
    "export type Id = number\nexport type Pair<K, V> = { key: K, value: V }\nexport type Callback = (Id, ...string) -> ()\ntype Private = { Pair<Id, string> }\nlocal function make(id: Id): Pair<Id, string>\n\treturn { key = id, value = tostring(id) }\nend\nmark({M})\nreturn { make = make }\n",
    // 34: uses globals whose names look like generated identifiers (rename_variables avoid set)
    "local first, second, third = a, b, c\nlocal function f(x, y, z)\n\treturn x + a, y + b, z + c + d + e\nend\nmark({M}, first, second, third, f(1, 2, 3))\nreturn f\n",
    // 35: several asserts / profile calls in expression position, select and debug shadowed
    "local select, debug = mark, { profilebegin = mark, profileend = mark }\nlocal v1 = assert(one())\nlocal v2, v3 = assert(two()), assert(three(), 'msg')\nlocal p = { debug.profilebegin('a'), debug.profileend() }\nmark({M}, v1, v2, v3, p, select)\nreturn v1\n",
    // 36: many locals to group / declare nil / leave unused
    "local a1\nlocal a2 = nil\nlocal a3, a4 = 1\nlocal a5 = a3\nlocal a6 = fn()\nlocal a7 = 7\nlocal unused1, unused2 = 1, 2\nmark({M}, a1, a2, a3, a4, a5, a6, a7)\nreturn a5\n",
    // 37: several compound assignments, interpolations, floor divisions and if-expressions
    "local x, y = 10, 3\nx += y\ny -= 1\nx //= y\nt.field ..= `{x}-{y}`\nt[key()] *= if x > y then x // 2 else y // 2\nlocal s = `a{x}b{y}c` .. `{`nested {x}`}`\nmark({M}, x, y, s)\nreturn s\n",
    // 38: several continues and nested loops
    "local out = {}\nfor i = 1, 3 do\n\tfor j = 1, 3 do\n\t\tif j == 2 then continue end\n\t\trepeat\n\t\t\tif i == j then continue end\n\t\t\tout[#out + 1] = i * j\n\t\tuntil true\n\tend\n\tif i == 2 then continue end\nend\nmark({M}, out)\nreturn out\n",
    // 39: method definitions and calls on several objects, index-to-field candidates
    "local A, B = {}, {}\nfunction A:one() return self['x'] end\nfunction B:two(n) return self['y'] + n end\nfunction A.B_link(...) return B:two(...) end\nlocal r = A:one() + B:two(1) + ('str'):len()\nmark({M}, r, A['B_link'](B, 2))\nreturn A\n",
    // 40: globals DEBUG, _G.DEBUG and a second injected-looking global
    "if DEBUG and VERSION then\n\tprint(_G.VERSION, _G['DEBUG'])\nend\nlocal function f(DEBUG)\n\treturn DEBUG or VERSION\nend\nmark({M}, f(false))\nreturn VERSION\n",
    // 41: types of a required module reached through an alias of the module value (the
    // bundler renames and hoists exported types; `types` is not bound to a require call)
    "local types = dep0\nexport type Id = number\nexport type Pair<K, V> = { key: K, value: V }\nlocal function pick(v: types.Id): types.Pair<types.Id, string>\n\treturn { key = v, value = tostring(v) }\nend\nmark({M}, pick)\nreturn { pick = pick }\n",
    // 42, 43: the same numbers spelled in two ways (a generator must print each file's own
    // spelling, whatever another file of the run looked like)
    "local t = { timeout = 1e3, ratio = 5e-1, big = 2.5E6, tiny = 1e-3 }\nmark({M}, t)\nreturn t\n",
    "local t = { timeout = 1000, ratio = 0.5, big = 2500000, tiny = 0.001 }\nmark({M}, t)\nreturn t\n",
    // 44..46: files without any statement (empty, blank lines, comments only): they still get
    // their output
    "",
    "\n\n   \n",
    "-- only a comment {M}\n--[[ and a block\ncomment ]]\n",
];

/// Index of the first body without any statement.
pub const FIRST_EMPTY_BODY: usize = 44;

/// Bodies that declare and use exported types (several bundled modules then export the same
/// type names).
pub const TYPE_BODIES: &[usize] = &[33, 41, 33, 41, 5, 28];

/// Bodies that do not parse (content faults).
pub const SYNTAX_ERRORS: &[&str] = &[
    "local = 1\nmark({M})\nreturn 1\n",
    "mark({M})\nreturn (1 +\n",
    "function end\nmark({M})\n",
    "mark({M})\nlocal s = 'unterminated\nreturn s\n",
    "if true then\n\tmark({M})\nreturn 1\n",
];

/// Data files that can be required while bundling.
pub const DATA_JSON: &[&str] = &[
    "{ \"marker\": {MJ}, \"list\": [1, 2, 3], \"nested\": { \"ok\": true } }\n",
    "[ {MJ}, null, 1.5 ]\n",
];
pub const DATA_YAML: &[&str] = &["marker: {MJ}\nlist:\n  - 1\n  - two\n"];
pub const DATA_TOML: &[&str] = &["marker = {MJ}\n[section]\nvalue = 3\n"];
pub const DATA_TXT: &[&str] = &["plain text {MT}\nsecond line\n"];

/// Data files that do not parse.
pub const BAD_JSON: &str = "{ \"marker\": {MJ}, ";
pub const BAD_YAML: &str = "marker: {MJ}\n  bad: [unclosed\n";
pub const BAD_TOML: &str = "marker = {MJ}\n[section\n";

pub fn render_lua(body: &str, marker: &str, requires: &[String]) -> String {
    let mut out = String::new();
    for (i, r) in requires.iter().enumerate() {
        // the required value is used so that no rule removes the declaration
        out.push_str(&format!("local dep{} = require(\"{}\")\nuse(dep{})\n", i, r, i));
    }
    out.push_str(&body.replace("{M}", &format!("\"{}\"", marker)));
    out
}

pub fn render_data(body: &str, marker: &str) -> String {
    body.replace("{MJ}", &format!("\"{}\"", marker))
        .replace("{MT}", marker)
}
