//! `SimFs`: the simulated file system behind `Resources` (hook H1).
//!
//! A real tree of directories and files rooted at `/` with a current working
//! directory, an op log of every call darklua makes, a fault plan, a
//! simulator-chosen enumeration order and an I/O step budget.
//! Semantics mirror the `Source::FileSystem` arm of `/repo/src/frontend/resources.rs`
//! call by call (see DESIGN.md §2.3).

use std::{
    collections::BTreeMap,
    path::{Component, Path, PathBuf},
    sync::Mutex,
};

use darklua_core::verif_hooks::{VerifFileSystem, VerifIoError};
use serde::{Deserialize, Serialize};

use crate::rng::{hash_bytes, hash_str};

pub const SIM_CWD: &str = "/sim/cwd";

#[derive(Clone, Debug, PartialEq, Eq)]
pub enum Node {
    File(Vec<u8>),
    Dir(BTreeMap<String, Node>),
}

#[derive(Clone, Copy, Debug, PartialEq, Eq, Hash, PartialOrd, Ord, Serialize, Deserialize)]
pub enum OpKind {
    Exists,
    IsDirectory,
    IsFile,
    Get,
    Write,
    WalkAll,
    IsEmptyDirectory,
    Remove,
}

#[derive(Clone, Copy, Debug, PartialEq, Eq, Hash, PartialOrd, Ord, Serialize, Deserialize)]
pub enum FaultKind {
    /// `get`: the file was listed but is gone when read (TOCTOU)
    GetNotFound,
    /// `get`: EIO
    GetEio,
    /// `get`: EACCES
    GetEacces,
    /// `write`: EACCES when opening, destination untouched
    WriteEacces,
    /// `write`: ENOSPC after truncation, destination left empty
    WriteEnospc,
    /// `write`: EIO in the middle, destination left with a strict prefix
    WriteTorn,
    /// `remove`: EACCES, nothing removed
    RemoveEacces,
}

impl FaultKind {
    pub fn op(self) -> OpKind {
        match self {
            FaultKind::GetNotFound | FaultKind::GetEio | FaultKind::GetEacces => OpKind::Get,
            FaultKind::WriteEacces | FaultKind::WriteEnospc | FaultKind::WriteTorn => OpKind::Write,
            FaultKind::RemoveEacces => OpKind::Remove,
        }
    }
    pub fn all() -> &'static [FaultKind] {
        &[
            FaultKind::GetNotFound,
            FaultKind::GetEio,
            FaultKind::GetEacces,
            FaultKind::WriteEacces,
            FaultKind::WriteEnospc,
            FaultKind::WriteTorn,
            FaultKind::RemoveEacces,
        ]
    }
}

/// One entry of a fault plan: the `nth` (0-based) call of `kind.op()` on `path`
/// fails; `nth = None` means every such call fails (a persistent fault).
#[derive(Clone, Debug, PartialEq, Eq, Serialize, Deserialize)]
pub struct FaultRule {
    pub kind: FaultKind,
    /// path relative to the simulated cwd (or absolute)
    pub path: String,
    pub nth: Option<u32>,
    /// only active while the fault epoch (set by the driver, e.g. the pass number) equals this
    #[serde(default)]
    pub epoch: Option<u32>,
}

#[derive(Clone, Debug, PartialEq, Eq, Serialize, Deserialize)]
pub enum Outcome {
    True,
    False,
    Ok,
    NotFound,
    Io(String),
    Entries(usize),
}

#[derive(Clone, Debug, PartialEq, Eq, Serialize, Deserialize)]
pub struct OpRec {
    pub seq: u64,
    pub op: OpKind,
    /// canonical path, relative to the simulated cwd when under it
    pub path: String,
    pub outcome: Outcome,
    /// digest of content read or written
    pub digest: Option<u64>,
    /// fault kind injected on this call, if any
    pub fault: Option<FaultKind>,
}

#[derive(Debug)]
struct Inner {
    root: Node,
    cwd: Vec<String>,
    log: Vec<OpRec>,
    seq: u64,
    faults: Vec<FaultRule>,
    fault_hits: Vec<u32>,
    fired: Vec<(usize, u64)>,
    epoch: u32,
    walk_seed: u64,
    budget: u64,
    logging: bool,
}

#[derive(Debug)]
pub struct SimFs {
    inner: Mutex<Inner>,
}

#[derive(Clone, Copy, Debug, PartialEq, Eq)]
enum Errno {
    NoEnt,
    NotDir,
}

pub type Snapshot = BTreeMap<String, Option<Vec<u8>>>;

fn split_components(path: &Path) -> (bool, Vec<Component<'_>>) {
    let absolute = path.is_absolute();
    (absolute, path.components().collect())
}

impl Inner {
    fn node_at(&self, comps: &[String]) -> Option<&Node> {
        let mut node = &self.root;
        for c in comps {
            match node {
                Node::Dir(children) => {
                    node = children.get(c)?;
                }
                Node::File(_) => return None,
            }
        }
        Some(node)
    }

    fn node_at_mut(&mut self, comps: &[String]) -> Option<&mut Node> {
        let mut node = &mut self.root;
        for c in comps {
            match node {
                Node::Dir(children) => {
                    node = children.get_mut(c)?;
                }
                Node::File(_) => return None,
            }
        }
        Some(node)
    }

    /// Resolve like the kernel does: every prefix that is traversed must be an
    /// existing directory; the final component may be absent.
    fn resolve(&self, path: &Path) -> Result<Vec<String>, Errno> {
        let (absolute, comps) = split_components(path);
        let mut cur: Vec<String> = if absolute { Vec::new() } else { self.cwd.clone() };
        let check_dir = |this: &Inner, cur: &Vec<String>| -> Result<(), Errno> {
            match this.node_at(cur) {
                Some(Node::Dir(_)) => Ok(()),
                Some(Node::File(_)) => Err(Errno::NotDir),
                None => {
                    // distinguish "a parent is a file" from "missing"
                    let mut prefix = cur.clone();
                    while !prefix.is_empty() {
                        prefix.pop();
                        match this.node_at(&prefix) {
                            Some(Node::File(_)) => return Err(Errno::NotDir),
                            Some(Node::Dir(_)) => return Err(Errno::NoEnt),
                            None => {}
                        }
                    }
                    Err(Errno::NoEnt)
                }
            }
        };
        for c in comps {
            match c {
                Component::Prefix(_) | Component::RootDir => {}
                Component::CurDir => {}
                Component::ParentDir => {
                    check_dir(self, &cur)?;
                    cur.pop();
                }
                Component::Normal(name) => {
                    check_dir(self, &cur)?;
                    cur.push(name.to_string_lossy().into_owned());
                }
            }
        }
        Ok(cur)
    }

    fn display(&self, comps: &[String]) -> String {
        if comps.len() >= self.cwd.len() && comps[..self.cwd.len()] == self.cwd[..] {
            let rel = comps[self.cwd.len()..].join("/");
            if rel.is_empty() {
                ".".to_owned()
            } else {
                rel
            }
        } else {
            format!("/{}", comps.join("/"))
        }
    }

    /// Lexically normalised form of a path as darklua passed it (relative to the cwd when
    /// under it); independent of what currently exists.
    fn display_path(&self, path: &Path) -> String {
        match lexical(&self.cwd, &path.to_string_lossy()) {
            Ok(comps) => self.display(&comps),
            Err(_) => format!("?{}", path.display()),
        }
    }

    fn step(&mut self) {
        self.seq += 1;
        if self.seq > self.budget {
            panic!("verif: I/O step budget exceeded ({} calls)", self.budget);
        }
    }

    fn match_fault(&mut self, op: OpKind, display: &str) -> Option<FaultKind> {
        let mut result = None;
        for i in 0..self.faults.len() {
            let (kind, nth, epoch) = {
                let rule = &self.faults[i];
                if rule.kind.op() != op || rule.path != display {
                    continue;
                }
                (rule.kind, rule.nth, rule.epoch)
            };
            if let Some(epoch) = epoch {
                if epoch != self.epoch {
                    continue;
                }
            }
            let hit = self.fault_hits[i];
            self.fault_hits[i] += 1;
            let fires = match nth {
                None => true,
                Some(n) => n == hit,
            };
            if fires && result.is_none() {
                self.fired.push((i, self.seq));
                result = Some(kind);
            }
        }
        result
    }

    fn record(
        &mut self,
        op: OpKind,
        path: String,
        outcome: Outcome,
        digest: Option<u64>,
        fault: Option<FaultKind>,
    ) {
        if self.logging {
            let seq = self.seq;
            self.log.push(OpRec {
                seq,
                op,
                path,
                outcome,
                digest,
                fault,
            });
        }
    }

    fn mkdir_all(&mut self, comps: &[String]) -> Result<(), String> {
        for i in 1..=comps.len() {
            let prefix = &comps[..i];
            match self.node_at(prefix) {
                Some(Node::Dir(_)) => {}
                Some(Node::File(_)) => {
                    return Err(if i == comps.len() {
                        "File exists (os error 17)".to_owned()
                    } else {
                        "Not a directory (os error 20)".to_owned()
                    });
                }
                None => {
                    let (parent, name) = prefix.split_at(i - 1);
                    match self.node_at_mut(parent) {
                        Some(Node::Dir(children)) => {
                            children.insert(name[0].clone(), Node::Dir(BTreeMap::new()));
                        }
                        _ => return Err("Not a directory (os error 20)".to_owned()),
                    }
                }
            }
        }
        Ok(())
    }

    fn put_file(&mut self, comps: &[String], bytes: Vec<u8>) -> Result<(), String> {
        if comps.is_empty() {
            return Err("Is a directory (os error 21)".to_owned());
        }
        let (parent, name) = comps.split_at(comps.len() - 1);
        match self.node_at_mut(parent) {
            Some(Node::Dir(children)) => match children.get_mut(&name[0]) {
                Some(Node::Dir(_)) => Err("Is a directory (os error 21)".to_owned()),
                Some(Node::File(content)) => {
                    *content = bytes;
                    Ok(())
                }
                None => {
                    children.insert(name[0].clone(), Node::File(bytes));
                    Ok(())
                }
            },
            Some(Node::File(_)) => Err("Not a directory (os error 20)".to_owned()),
            None => Err("No such file or directory (os error 2)".to_owned()),
        }
    }

    fn remove_node(&mut self, comps: &[String]) -> bool {
        if comps.is_empty() {
            return false;
        }
        let (parent, name) = comps.split_at(comps.len() - 1);
        match self.node_at_mut(parent) {
            Some(Node::Dir(children)) => children.remove(&name[0]).is_some(),
            _ => false,
        }
    }

    fn collect(&self, comps: &[String], out: &mut Vec<(Vec<String>, bool)>) {
        match self.node_at(comps) {
            Some(Node::File(_)) => out.push((comps.to_vec(), true)),
            Some(Node::Dir(children)) => {
                out.push((comps.to_vec(), false));
                let names: Vec<String> = children.keys().cloned().collect();
                for name in names {
                    let mut child = comps.to_vec();
                    child.push(name);
                    self.collect(&child, out);
                }
            }
            None => {}
        }
    }
}

impl SimFs {
    pub fn new(walk_seed: u64) -> Self {
        let cwd: Vec<String> = SIM_CWD
            .split('/')
            .filter(|s| !s.is_empty())
            .map(str::to_owned)
            .collect();
        let mut inner = Inner {
            root: Node::Dir(BTreeMap::new()),
            cwd: cwd.clone(),
            log: Vec::new(),
            seq: 0,
            faults: Vec::new(),
            fault_hits: Vec::new(),
            fired: Vec::new(),
            epoch: 0,
            walk_seed,
            budget: u64::MAX,
            logging: true,
        };
        inner.mkdir_all(&cwd).unwrap();
        SimFs {
            inner: Mutex::new(inner),
        }
    }

    /// A copy of the current tree with a fresh log and no faults.
    pub fn fork(&self, walk_seed: u64) -> SimFs {
        let inner = self.inner.lock().unwrap();
        SimFs {
            inner: Mutex::new(Inner {
                root: inner.root.clone(),
                cwd: inner.cwd.clone(),
                log: Vec::new(),
                seq: 0,
                faults: Vec::new(),
                fault_hits: Vec::new(),
                fired: Vec::new(),
                epoch: 0,
                walk_seed,
                budget: u64::MAX,
                logging: true,
            }),
        }
    }

    pub fn set_faults(&self, faults: Vec<FaultRule>) {
        let mut inner = self.inner.lock().unwrap();
        inner.fault_hits = vec![0; faults.len()];
        inner.faults = faults;
        inner.fired.clear();
    }

    pub fn set_epoch(&self, epoch: u32) {
        self.inner.lock().unwrap().epoch = epoch;
    }

    pub fn set_walk_seed(&self, walk_seed: u64) {
        self.inner.lock().unwrap().walk_seed = walk_seed;
    }

    /// Allow at most `budget` further calls before panicking.
    pub fn set_budget(&self, budget: u64) {
        let mut inner = self.inner.lock().unwrap();
        inner.budget = inner.seq.saturating_add(budget);
    }

    pub fn seq(&self) -> u64 {
        self.inner.lock().unwrap().seq
    }

    pub fn take_log(&self) -> Vec<OpRec> {
        std::mem::take(&mut self.inner.lock().unwrap().log)
    }

    pub fn log_len(&self) -> usize {
        self.inner.lock().unwrap().log.len()
    }

    pub fn log_since(&self, start: usize) -> Vec<OpRec> {
        self.inner.lock().unwrap().log[start..].to_vec()
    }

    /// (rule index, seq) of every fault that actually fired
    pub fn fired(&self) -> Vec<(usize, u64)> {
        self.inner.lock().unwrap().fired.clone()
    }

    // ---- the simulated user's side (not logged, never faulted) ----

    pub fn user_write(&self, path: &str, bytes: &[u8]) {
        let mut inner = self.inner.lock().unwrap();
        let comps = inner
            .resolve(Path::new(path))
            .or_else(|_| lexical(&inner.cwd, path))
            .expect("user path");
        if comps.len() > 1 {
            let parent = comps[..comps.len() - 1].to_vec();
            // a user creating a file creates its directories first
            let _ = inner.mkdir_all(&parent);
        }
        let _ = inner.put_file(&comps, bytes.to_vec());
    }

    pub fn user_mkdir(&self, path: &str) {
        let mut inner = self.inner.lock().unwrap();
        let comps = lexical(&inner.cwd, path).expect("user path");
        let _ = inner.mkdir_all(&comps);
    }

    pub fn user_remove(&self, path: &str) -> bool {
        let mut inner = self.inner.lock().unwrap();
        match lexical(&inner.cwd, path) {
            Ok(comps) => inner.remove_node(&comps),
            Err(_) => false,
        }
    }

    pub fn user_rename(&self, from: &str, to: &str) -> bool {
        let mut inner = self.inner.lock().unwrap();
        let from_c = lexical(&inner.cwd, from).expect("user path");
        let to_c = lexical(&inner.cwd, to).expect("user path");
        let node = match inner.node_at(&from_c) {
            Some(node) => node.clone(),
            None => return false,
        };
        inner.remove_node(&from_c);
        if to_c.len() > 1 {
            let parent = to_c[..to_c.len() - 1].to_vec();
            let _ = inner.mkdir_all(&parent);
        }
        inner.remove_node(&to_c);
        let (parent, name) = to_c.split_at(to_c.len() - 1);
        if let Some(Node::Dir(children)) = inner.node_at_mut(parent) {
            children.insert(name[0].clone(), node);
            true
        } else {
            false
        }
    }

    pub fn user_read(&self, path: &str) -> Option<Vec<u8>> {
        let inner = self.inner.lock().unwrap();
        let comps = lexical(&inner.cwd, path).ok()?;
        match inner.node_at(&comps) {
            Some(Node::File(bytes)) => Some(bytes.clone()),
            _ => None,
        }
    }

    pub fn user_is_dir(&self, path: &str) -> bool {
        let inner = self.inner.lock().unwrap();
        match lexical(&inner.cwd, path) {
            Ok(comps) => matches!(inner.node_at(&comps), Some(Node::Dir(_))),
            Err(_) => false,
        }
    }

    pub fn user_exists(&self, path: &str) -> bool {
        let inner = self.inner.lock().unwrap();
        match lexical(&inner.cwd, path) {
            Ok(comps) => inner.node_at(&comps).is_some(),
            Err(_) => false,
        }
    }

    /// Every path under `path` (relative display form) -> Some(bytes) for files, None for
    /// directories. The directory `path` itself is not included.
    pub fn snapshot(&self, path: &str) -> Snapshot {
        let inner = self.inner.lock().unwrap();
        let mut out = Snapshot::new();
        let comps = match lexical(&inner.cwd, path) {
            Ok(c) => c,
            Err(_) => return out,
        };
        let mut entries = Vec::new();
        inner.collect(&comps, &mut entries);
        for (entry, is_file) in entries {
            if entry == comps && !is_file {
                continue;
            }
            let key = inner.display(&entry);
            if is_file {
                if let Some(Node::File(bytes)) = inner.node_at(&entry) {
                    out.insert(key, Some(bytes.clone()));
                }
            } else {
                out.insert(key, None);
            }
        }
        out
    }

    /// Snapshot of the whole simulated file system (from `/`).
    pub fn snapshot_all(&self) -> Snapshot {
        self.snapshot("/")
    }
}

/// Lexical resolution for the user's side (no existence requirement).
fn lexical(cwd: &[String], path: &str) -> Result<Vec<String>, ()> {
    let p = Path::new(path);
    let mut cur: Vec<String> = if p.is_absolute() { Vec::new() } else { cwd.to_vec() };
    for c in p.components() {
        match c {
            Component::Prefix(_) | Component::RootDir | Component::CurDir => {}
            Component::ParentDir => {
                cur.pop();
            }
            Component::Normal(name) => cur.push(name.to_string_lossy().into_owned()),
        }
    }
    Ok(cur)
}

const EIO: &str = "Input/output error (os error 5)";
const EACCES: &str = "Permission denied (os error 13)";
const ENOSPC: &str = "No space left on device (os error 28)";
const EISDIR: &str = "Is a directory (os error 21)";
const ENOTDIR: &str = "Not a directory (os error 20)";

impl VerifFileSystem for SimFs {
    fn exists(&self, location: &Path) -> bool {
        let mut inner = self.inner.lock().unwrap();
        inner.step();
        let display = inner.display_path(location);
        let result = match inner.resolve(location) {
            Ok(comps) => inner.node_at(&comps).is_some(),
            Err(_) => false,
        };
        inner.record(
            OpKind::Exists,
            display,
            if result { Outcome::True } else { Outcome::False },
            None,
            None,
        );
        result
    }

    fn is_directory(&self, location: &Path) -> bool {
        let mut inner = self.inner.lock().unwrap();
        inner.step();
        let display = inner.display_path(location);
        let result = match inner.resolve(location) {
            Ok(comps) => matches!(inner.node_at(&comps), Some(Node::Dir(_))),
            Err(_) => false,
        };
        inner.record(
            OpKind::IsDirectory,
            display,
            if result { Outcome::True } else { Outcome::False },
            None,
            None,
        );
        result
    }

    fn is_file(&self, location: &Path) -> bool {
        let mut inner = self.inner.lock().unwrap();
        inner.step();
        let display = inner.display_path(location);
        let result = match inner.resolve(location) {
            Ok(comps) => matches!(inner.node_at(&comps), Some(Node::File(_))),
            Err(_) => false,
        };
        inner.record(
            OpKind::IsFile,
            display,
            if result { Outcome::True } else { Outcome::False },
            None,
            None,
        );
        result
    }

    fn get(&self, location: &Path) -> Result<String, VerifIoError> {
        let mut inner = self.inner.lock().unwrap();
        inner.step();
        let display = inner.display_path(location);
        let fault = inner.match_fault(OpKind::Get, &display);
        let result: Result<String, VerifIoError> = match fault {
            Some(FaultKind::GetNotFound) => Err(VerifIoError::NotFound),
            Some(FaultKind::GetEio) => Err(VerifIoError::Io(EIO.to_owned())),
            Some(FaultKind::GetEacces) => Err(VerifIoError::Io(EACCES.to_owned())),
            _ => match inner.resolve(location) {
                Err(Errno::NoEnt) => Err(VerifIoError::NotFound),
                Err(Errno::NotDir) => Err(VerifIoError::Io(ENOTDIR.to_owned())),
                Ok(comps) => match inner.node_at(&comps) {
                    None => Err(VerifIoError::NotFound),
                    Some(Node::Dir(_)) => Err(VerifIoError::Io(EISDIR.to_owned())),
                    Some(Node::File(bytes)) => String::from_utf8(bytes.clone()).map_err(|_| {
                        VerifIoError::Io("stream did not contain valid UTF-8".to_owned())
                    }),
                },
            },
        };
        let (outcome, digest) = match &result {
            Ok(content) => (Outcome::Ok, Some(hash_bytes(0, content.as_bytes()))),
            Err(VerifIoError::NotFound) => (Outcome::NotFound, None),
            Err(VerifIoError::Io(msg)) => (Outcome::Io(msg.clone()), None),
        };
        inner.record(OpKind::Get, display, outcome, digest, fault);
        result
    }

    fn write(&self, location: &Path, content: &str) -> Result<(), (PathBuf, VerifIoError)> {
        let mut inner = self.inner.lock().unwrap();
        inner.step();
        let display = inner.display_path(location);
        let fault = inner.match_fault(OpKind::Write, &display);
        let result: Result<(), (PathBuf, VerifIoError)> = (|| {
            // fs::create_dir_all(parent)
            if let Some(parent) = location.parent() {
                if parent != Path::new("") {
                    let parent_comps = match lexical(&inner.cwd, &parent.to_string_lossy()) {
                        Ok(c) => c,
                        Err(_) => {
                            return Err((
                                parent.to_path_buf(),
                                VerifIoError::Io(ENOTDIR.to_owned()),
                            ))
                        }
                    };
                    inner
                        .mkdir_all(&parent_comps)
                        .map_err(|msg| (parent.to_path_buf(), VerifIoError::Io(msg)))?;
                }
            }
            let comps = match inner.resolve(location) {
                Ok(c) => c,
                Err(Errno::NoEnt) => {
                    return Err((
                        location.to_path_buf(),
                        VerifIoError::Io("No such file or directory (os error 2)".to_owned()),
                    ))
                }
                Err(Errno::NotDir) => {
                    return Err((location.to_path_buf(), VerifIoError::Io(ENOTDIR.to_owned())))
                }
            };
            if let Some(Node::Dir(_)) = inner.node_at(&comps) {
                return Err((location.to_path_buf(), VerifIoError::Io(EISDIR.to_owned())));
            }
            match fault {
                Some(FaultKind::WriteEacces) => {
                    Err((location.to_path_buf(), VerifIoError::Io(EACCES.to_owned())))
                }
                Some(FaultKind::WriteEnospc) => {
                    inner
                        .put_file(&comps, Vec::new())
                        .map_err(|msg| (location.to_path_buf(), VerifIoError::Io(msg)))?;
                    Err((location.to_path_buf(), VerifIoError::Io(ENOSPC.to_owned())))
                }
                Some(FaultKind::WriteTorn) => {
                    let bytes = content.as_bytes();
                    let torn = bytes[..bytes.len() / 2].to_vec();
                    inner
                        .put_file(&comps, torn)
                        .map_err(|msg| (location.to_path_buf(), VerifIoError::Io(msg)))?;
                    Err((location.to_path_buf(), VerifIoError::Io(EIO.to_owned())))
                }
                _ => inner
                    .put_file(&comps, content.as_bytes().to_vec())
                    .map_err(|msg| (location.to_path_buf(), VerifIoError::Io(msg))),
            }
        })();
        let outcome = match &result {
            Ok(()) => Outcome::Ok,
            Err((_, VerifIoError::NotFound)) => Outcome::NotFound,
            Err((_, VerifIoError::Io(msg))) => Outcome::Io(msg.clone()),
        };
        inner.record(
            OpKind::Write,
            display,
            outcome,
            Some(hash_bytes(0, content.as_bytes())),
            fault,
        );
        result
    }

    fn walk_all(&self, location: &Path) -> Vec<(PathBuf, bool)> {
        let mut inner = self.inner.lock().unwrap();
        inner.step();
        let display = inner.display_path(location);
        let mut result: Vec<(PathBuf, bool)> = Vec::new();
        if let Ok(comps) = inner.resolve(location) {
            let mut entries = Vec::new();
            inner.collect(&comps, &mut entries);
            for (entry, is_file) in entries {
                let mut path = location.to_path_buf();
                for c in &entry[comps.len()..] {
                    path.push(c);
                }
                result.push((path, is_file));
            }
        }
        let seed = inner.walk_seed;
        result.sort_by_key(|(path, _)| hash_str(seed, &path.to_string_lossy()));
        inner.record(
            OpKind::WalkAll,
            display,
            Outcome::Entries(result.len()),
            None,
            None,
        );
        result
    }

    fn is_empty_directory(&self, location: &Path) -> bool {
        let mut inner = self.inner.lock().unwrap();
        inner.step();
        let display = inner.display_path(location);
        let result = match inner.resolve(location) {
            Ok(comps) => {
                matches!(inner.node_at(&comps), Some(Node::Dir(children)) if children.is_empty())
            }
            Err(_) => false,
        };
        inner.record(
            OpKind::IsEmptyDirectory,
            display,
            if result { Outcome::True } else { Outcome::False },
            None,
            None,
        );
        result
    }

    fn remove(&self, location: &Path) -> Result<(), VerifIoError> {
        let mut inner = self.inner.lock().unwrap();
        inner.step();
        let display = inner.display_path(location);
        let fault = inner.match_fault(OpKind::Remove, &display);
        let result = match inner.resolve(location) {
            Err(_) => Ok(()),
            Ok(comps) => match inner.node_at(&comps) {
                None => Ok(()),
                Some(_) => match fault {
                    Some(FaultKind::RemoveEacces) => Err(VerifIoError::Io(EACCES.to_owned())),
                    _ => {
                        inner.remove_node(&comps);
                        Ok(())
                    }
                },
            },
        };
        let outcome = match &result {
            Ok(()) => Outcome::Ok,
            Err(VerifIoError::NotFound) => Outcome::NotFound,
            Err(VerifIoError::Io(msg)) => Outcome::Io(msg.clone()),
        };
        inner.record(OpKind::Remove, display, outcome, None, fault);
        result
    }
}
