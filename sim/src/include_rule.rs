//! `verif_include`: a rule supplied by the harness through darklua's public `Rule` trait
//! (DESIGN.md §4.4). No in-tree rule overrides `Rule::require_content`, so the work-item
//! graph (edges, requeue, toposort, restart of dependents, cyclic-work error) is only
//! reachable with a rule like this one: for every source it declares, through
//! `require_content`, the other sources it depends on, and appends to the block one call
//! per dependency carrying a digest of that dependency's *processed output*.
//! Violations that need this rule are reported with it visible in the scenario
//! (`opts.include_deps`).

use std::{
    cell::Cell,
    collections::BTreeMap,
    path::{Path, PathBuf},
};

use darklua_core::{
    generator::{DenseLuaGenerator, LuaGenerator},
    nodes::{Block, FunctionCall, StringExpression},
    rules::{
        Context, Rule, RuleConfiguration, RuleConfigurationError, RuleMetadata, RuleProcessResult,
        RuleProperties,
    },
};

use crate::rng::hash_str;

thread_local! {
    static REQUIRE_CONTENT_CALLS: Cell<u64> = const { Cell::new(0) };
}

/// The work loop calls `require_content` once per attempt on an item: a loop that never
/// terminates performs no I/O, so this counter is what turns it into a reportable panic.
pub const LOOP_GUARD: u64 = 2_000;

/// Sweeps of `WorkerTree::process`'s work loop allowed per pass (one is normal; with
/// `require_content` a few more).
pub const SWEEP_LIMIT: u64 = 64;

pub fn reset_loop_guard() {
    REQUIRE_CONTENT_CALLS.with(|c| c.set(0));
    darklua_core::verif_hooks::verif_limit_probe("work_loop_sweep", SWEEP_LIMIT);
}

#[derive(Debug, Default)]
pub struct VerifInclude {
    pub deps: BTreeMap<String, Vec<String>>,
    metadata: RuleMetadata,
}

impl VerifInclude {
    pub fn new(deps: BTreeMap<String, Vec<String>>) -> Self {
        VerifInclude {
            deps,
            metadata: RuleMetadata::default(),
        }
    }
}

fn key(path: &Path) -> String {
    path.to_string_lossy().into_owned()
}

impl Rule for VerifInclude {
    fn process(&self, block: &mut Block, context: &Context) -> RuleProcessResult {
        let current = key(context.current_path());
        if let Some(deps) = self.deps.get(&current) {
            for dep in deps {
                let dep_block = context
                    .block(Path::new(dep))
                    .ok_or_else(|| format!("content of `{}` was not provided", dep))?;
                let mut generator = DenseLuaGenerator::new(80);
                generator.write_block(dep_block);
                let code = generator.into_string();
                let digest = format!("{:016x}", hash_str(7, &code));
                block.push_statement(
                    FunctionCall::from_name("included")
                        .with_argument(StringExpression::from_value(dep.as_str()))
                        .with_argument(StringExpression::from_value(digest.as_str())),
                );
            }
        }
        Ok(())
    }

    fn require_content(&self, current_source: &Path, _current_block: &Block) -> Vec<PathBuf> {
        let calls = REQUIRE_CONTENT_CALLS.with(|c| {
            c.set(c.get() + 1);
            c.get()
        });
        if calls > LOOP_GUARD {
            panic!(
                "verif: the work loop does not terminate (require_content called {} times in one pass)",
                calls
            );
        }
        self.deps
            .get(&key(current_source))
            .map(|deps| deps.iter().map(PathBuf::from).collect())
            .unwrap_or_default()
    }
}

impl RuleConfiguration for VerifInclude {
    fn configure(&mut self, _properties: RuleProperties) -> Result<(), RuleConfigurationError> {
        Ok(())
    }

    fn get_name(&self) -> &'static str {
        "verif_include"
    }

    fn serialize_to_properties(&self) -> RuleProperties {
        // the dependency table is part of the configuration: a change of it must change
        // the serialized configuration (and therefore the watch worker's hash)
        let mut properties = RuleProperties::new();
        let text = serde_json::to_string(&self.deps).unwrap_or_default();
        properties.insert("deps".to_owned(), text.into());
        properties
    }

    fn set_metadata(&mut self, metadata: RuleMetadata) {
        self.metadata = metadata;
    }

    fn metadata(&self) -> &RuleMetadata {
        &self.metadata
    }
}
