//! C11 — batch runs map files one-to-one, isolate failures and are deterministic.
//! Scenario generation, execution and oracle (DESIGN.md §3).

use std::collections::{BTreeMap, BTreeSet};

use crate::{
    corpus,
    exec::{self, Outcome, Store},
    gen::{self, ProjectKnobs},
    model::{Backend, Body, C11Scenario, FsEntry, Violation},
    rng::{mix, Rng},
    simfs::{FaultKind, FaultRule, OpKind, OpRec, Outcome as IoOutcome, Snapshot},
};

const P: &str = "C11";

#[derive(Clone, Debug, Default)]
pub struct RunStats {
    pub executions: u64,
    pub faults_fired: BTreeMap<String, u64>,
    pub content_faults: BTreeMap<String, u64>,
    pub probes: BTreeMap<String, u64>,
    pub io_signature: u64,
    pub nontrivial: bool,
    pub files: usize,
    pub orders_compared: u32,
    pub healthy_ratio_num: u64,
    pub healthy_ratio_den: u64,
    pub stub_validated: bool,
    pub stub_disagreement: Option<String>,
    pub unexpected_reference_errors: u64,
    pub sources_named: u64,
    pub wiped_reruns: u64,
    pub success_counts_checked: u64,
    pub duplicate_reports: u64,
    pub rewritten_outputs: u64,
}

pub struct Exec {
    pub outcome: Outcome,
    pub before: Snapshot,
    pub after: Snapshot,
    pub log: Vec<OpRec>,
    pub fired: Vec<(usize, u64)>,
    pub probes: BTreeMap<&'static str, u64>,
    /// snapshot after a second run over the resulting state (when requested)
    pub rerun: Option<(Outcome, Snapshot, Vec<OpRec>)>,
    /// what the first run said at error level besides the collected errors: the `log`
    /// records of the library (in-process back ends) or the standard error stream of the
    /// binary, with paths spelled canonically
    pub error_logs: Vec<String>,
    /// a third run, with the same `Resources` value, after the output location was deleted
    /// behind darklua's back (when requested): outcome and snapshot
    pub rerun_wiped: Option<(Outcome, Snapshot)>,
}

fn budget_for(entries: usize) -> u64 {
    400 + 64 * (entries as u64 + 1) * 16
}

/// Execute the scenario's invocation once (and optionally a second time on the resulting
/// state) on a fresh store under the given order/hash seeds.
pub fn execute(
    scn: &C11Scenario,
    entries: Vec<FsEntry>,
    faults: Vec<FaultRule>,
    walk_seed: u64,
    hash_seed: u64,
    rerun: bool,
) -> Result<Exec, String> {
    let backend = scn.backend;
    let opts = scn.opts.clone();
    let trace_logs = scn.trace_logs;
    if backend == Backend::RealFs {
        return execute_real(&opts, &entries, walk_seed, hash_seed, rerun);
    }
    if backend == Backend::RealLib {
        return execute_real_lib(opts, entries, walk_seed, hash_seed, rerun, trace_logs);
    }
    exec::on_carrier(hash_seed, move || {
        let store = Store::new(backend, walk_seed, &entries);
        let before = store.snapshot();
        if let Some(fs) = store.sim() {
            fs.set_faults(faults.clone());
            fs.set_budget(budget_for(entries.len()));
        }
        let resources = store.resources();
        exec::set_trace_logs(trace_logs);
        let _ = exec::take_captured_errors();
        let outcome = exec::fresh_process(&resources, &opts);
        let error_logs: Vec<String> = exec::take_captured_errors()
            .into_iter()
            .map(|(_, text)| exec::canon_text(&text, &opts))
            .collect();
        let after = store.snapshot();
        let (log, fired) = match store.sim() {
            Some(fs) => (fs.take_log(), fs.fired()),
            None => (Vec::new(), Vec::new()),
        };
        let rerun = if rerun {
            if let Some(fs) = store.sim() {
                fs.set_faults(faults.clone());
                fs.set_budget(budget_for(entries.len()));
            }
            let outcome2 = exec::fresh_process(&resources, &opts);
            let after2 = store.snapshot();
            let log2 = store.sim().map(|fs| fs.take_log()).unwrap_or_default();
            Some((outcome2, after2, log2))
        } else {
            None
        };
        let rerun_wiped = match (&rerun, wipe_target(&opts)) {
            (Some(_), Some(target)) if faults.is_empty() => {
                store.user_remove(&target);
                let outcome3 = exec::fresh_process(&resources, &opts);
                let _ = store.sim().map(|fs| fs.take_log());
                Some((outcome3, store.snapshot()))
            }
            _ => None,
        };
        let probes = exec::take_probes();
        Exec {
            outcome,
            before,
            after,
            log,
            fired,
            probes,
            rerun,
            error_logs,
            rerun_wiped,
        }
    })
}

/// The output location to delete before the "wiped" rerun: only a separate output location.
fn wipe_target(opts: &crate::model::OptSpec) -> Option<String> {
    if separate_output(opts) {
        // never the working directory itself
        opts.output.as_ref().map(|o| gen::normalize(o)).filter(|o| !o.is_empty() && !o.starts_with(".."))
    } else {
        None
    }
}

/// The process-wide working directory is shared: one real-FS library execution at a time.
use crate::exec::CWD_LOCK;

/// Tier B': the real `Source::FileSystem` arm through the library API, in this process,
/// with a tmpfs scratch directory as working directory (covers what the command line
/// cannot express: no output at all, fail-fast, a configuration object).
fn execute_real_lib(
    opts: crate::model::OptSpec,
    entries: Vec<FsEntry>,
    walk_seed: u64,
    hash_seed: u64,
    rerun: bool,
    trace_logs: bool,
) -> Result<Exec, String> {
    use crate::tierb;
    let guard = CWD_LOCK.lock().unwrap_or_else(|e| e.into_inner());
    let scratch = tierb::Scratch::new()?;
    tierb::materialize(&scratch.root, &entries, walk_seed)?;
    let root = scratch.root.clone();
    let result = exec::on_carrier(hash_seed, move || {
        let before = tierb::snapshot(&root);
        if std::env::set_current_dir(&root).is_err() {
            return Err("cannot enter the scratch directory".to_owned());
        }
        let resources = darklua_core::Resources::from_file_system();
        exec::set_trace_logs(trace_logs);
        let _ = exec::take_captured_errors();
        let outcome = exec::fresh_process(&resources, &opts);
        let error_logs: Vec<String> = exec::take_captured_errors()
            .into_iter()
            .map(|(_, text)| exec::canon_text(&text, &opts))
            .collect();
        let after = tierb::snapshot(&root);
        let rerun = if rerun {
            let outcome2 = exec::fresh_process(&resources, &opts);
            Some((outcome2, tierb::snapshot(&root), Vec::new()))
        } else {
            None
        };
        let rerun_wiped = match (&rerun, wipe_target(&opts)) {
            (Some(_), Some(target)) => {
                let path = root.join(&target);
                let _ = std::fs::remove_dir_all(&path).or_else(|_| std::fs::remove_file(&path));
                let outcome3 = exec::fresh_process(&resources, &opts);
                Some((outcome3, tierb::snapshot(&root)))
            }
            _ => None,
        };
        let _ = std::env::set_current_dir("/");
        Ok(Exec {
            outcome,
            before,
            after,
            log: Vec::new(),
            fired: Vec::new(),
            probes: exec::take_probes(),
            rerun,
            error_logs,
            rerun_wiped,
        })
    });
    let _ = std::env::set_current_dir("/");
    drop(guard);
    drop(scratch);
    result?
}

/// Tier B: the same invocation through the real binary on a tmpfs scratch directory.
fn execute_real(
    opts: &crate::model::OptSpec,
    entries: &[FsEntry],
    walk_seed: u64,
    hash_seed: u64,
    rerun: bool,
) -> Result<Exec, String> {
    use crate::tierb;
    let args = tierb::cli_args(opts).ok_or("scenario cannot be expressed on the command line")?;
    let scratch = tierb::Scratch::new()?;
    tierb::materialize(&scratch.root, entries, walk_seed)?;
    let before = tierb::snapshot(&scratch.root);
    let canon = |outcome: Outcome| match outcome {
        Outcome::Done { errors, success } => {
            let mut errors: Vec<String> = errors.iter().map(|e| exec::canon_text(e, opts)).collect();
            errors.sort();
            Outcome::Done { errors, success }
        }
        other => other,
    };
    let mut first = tierb::run_binary(&scratch.root, &args, hash_seed)?;
    first.outcome = canon(first.outcome);
    if let Outcome::BatchErr(msg) = &first.outcome {
        if msg.starts_with("harness:") {
            return Err(msg.clone());
        }
    }
    let after = tierb::snapshot(&scratch.root);
    let rerun = if rerun {
        let second = tierb::run_binary(&scratch.root, &args, hash_seed)?;
        Some((canon(second.outcome), tierb::snapshot(&scratch.root), Vec::new()))
    } else {
        None
    };
    let error_logs = vec![exec::canon_text(&first.stderr, opts)];
    Ok(Exec {
        outcome: first.outcome,
        before,
        after,
        log: Vec::new(),
        fired: Vec::new(),
        probes: BTreeMap::new(),
        rerun,
        error_logs,
        rerun_wiped: None,
    })
}

/// Paths quoted with backticks in an error text, in order.
pub fn quoted_paths(text: &str) -> Vec<String> {
    let mut out = Vec::new();
    let mut rest = text;
    while let Some(start) = rest.find('`') {
        let after = &rest[start + 1..];
        match after.find('`') {
            Some(end) => {
                out.push(after[..end].to_owned());
                rest = &after[end + 1..];
            }
            None => break,
        }
    }
    out
}

fn norm_quoted(p: &str) -> String {
    gen::normalize(p)
}

struct Layout {
    expected: Vec<String>,
    mirror: BTreeMap<String, String>,
    excluded: BTreeSet<String>,
}

fn layout(scn: &C11Scenario, entries: &[FsEntry]) -> Layout {
    let input_norm = gen::normalize(&scn.opts.input);
    let input_is_file = entries
        .iter()
        .any(|e| e.path == input_norm && e.body != Body::Dir);
    let config_text: Option<String> = match &scn.opts.config {
        crate::model::ConfigSource::Object(text) => Some(text.clone()),
        _ => config_path_of(&scn.opts, entries).and_then(|p| {
            entries.iter().find(|e| e.path == p).and_then(|e| match &e.body {
                Body::Text(t) => Some(t.clone()),
                _ => None,
            })
        }),
    };
    let expected: Vec<String> = gen::expected_sources(entries, &scn.opts.input, input_is_file);
    // sources excluded by the top-level filters are read and parsed (so they can fail) but
    // otherwise skipped entirely: nothing is written for them
    let excluded: BTreeSet<String> = expected
        .iter()
        .filter(|p| match &config_text {
            Some(text) => !gen::config_selects(text, p),
            None => false,
        })
        .cloned()
        .collect();
    let (out_is_dir, out_is_file) = match &scn.opts.output {
        Some(output) => {
            let o = gen::normalize(output);
            let prefix = format!("{}/", o);
            let is_dir = entries
                .iter()
                .any(|e| (e.path == o && e.body == Body::Dir) || e.path.starts_with(&prefix));
            let is_file = entries.iter().any(|e| e.path == o && e.body != Body::Dir);
            (is_dir, is_file)
        }
        None => (false, false),
    };
    let mut mirror = BTreeMap::new();
    for source in &expected {
        mirror.insert(
            source.clone(),
            sim_spelling(&gen::normalize(&gen::mirror(
                &scn.opts,
                input_is_file,
                out_is_dir,
                out_is_file,
                source,
            ))),
        );
    }
    Layout {
        expected,
        mirror,
        excluded,
    }
}

fn is_path_char(c: char) -> bool {
    c.is_alphanumeric() || matches!(c, '/' | '.' | '_' | '-')
}

/// Byte offset of the first occurrence of `path` in `text` that is delimited like a path
/// (not the middle of a longer path or name). Independent of how the message quotes it.
pub fn mention(text: &str, path: &str) -> Option<usize> {
    if path.is_empty() {
        return None;
    }
    let mut from = 0;
    while let Some(pos) = text[from..].find(path) {
        let start = from + pos;
        let end = start + path.len();
        let before_ok = match text[..start].chars().next_back() {
            None => true,
            Some('/') => {
                // only a spelling of "here" in front (`./`, `.//`, `././`): still this path
                let head = &text[..start];
                let lead = head.trim_end_matches(|c| c == '.' || c == '/');
                let here = &head[lead.len()..];
                here.starts_with('.')
                    && !here.contains("..")
                    && !lead.chars().next_back().map(is_path_char).unwrap_or(false)
            }
            Some(c) => !is_path_char(c),
        };
        let after_ok = match text[end..].chars().next() {
            None => true,
            Some(c) => !is_path_char(c) || (c == '.' && !text[end + 1..].starts_with(|x: char| x.is_alphanumeric())),
        };
        if before_ok && after_ok {
            return Some(start);
        }
        from = start + path.len().max(1);
        while !text.is_char_boundary(from) {
            from += 1;
        }
        if from >= text.len() {
            break;
        }
    }
    None
}

/// Attribute an error text to expected sources: the path mentioned first in the text is
/// the item's source, or (failed write) its destination or an ancestor directory of it
/// (then several sources may share it). How the message quotes paths does not matter.
fn attribute(text: &str, lay: &Layout) -> Vec<String> {
    // (position, -length) of the best mention and the sources it stands for
    let mut best: Option<((usize, isize), Vec<String>)> = None;
    let mut consider = |name: &str, sources: Vec<String>| {
        if let Some(pos) = mention(text, name) {
            let key = (pos, -(name.len() as isize));
            match &best {
                Some((k, _)) if *k <= key => {}
                _ => best = Some((key, sources)),
            }
        }
    };
    for source in &lay.expected {
        consider(source, vec![source.clone()]);
    }
    let mut by_target: BTreeMap<String, Vec<String>> = BTreeMap::new();
    for (source, mirror) in &lay.mirror {
        by_target.entry(mirror.clone()).or_default().push(source.clone());
        let mut p = gen::parent(mirror);
        while !p.is_empty() {
            by_target.entry(p.to_owned()).or_default().push(source.clone());
            p = gen::parent(p);
        }
    }
    for (target, sources) in by_target {
        consider(&target, sources);
    }
    best.map(|(_, sources)| sources).unwrap_or_default()
}

/// Content-bad files plus files under a persistent read fault.
fn all_bad_files(scn: &C11Scenario) -> Vec<String> {
    let mut bad = scn.bad_files.clone();
    for rule in &scn.faults {
        if rule.nth.is_none() && rule.kind.op() == OpKind::Get && !bad.contains(&rule.path) {
            bad.push(rule.path.clone());
        }
    }
    bad
}

/// Sources whose destination cannot be written: persistent write fault on it, a
/// directory sitting at it, or a file sitting where one of its directories must be.
fn unwritable_sources(scn: &C11Scenario, lay: &Layout) -> Vec<String> {
    let mut out = Vec::new();
    for (source, m) in &lay.mirror {
        let write_fault = scn
            .faults
            .iter()
            .any(|r| r.nth.is_none() && r.kind.op() == OpKind::Write && r.path == *m);
        let dir_at = scn
            .entries
            .iter()
            .any(|e| e.path == *m && matches!(e.body, Body::Dir | Body::Symlink(_)));
        let mut file_above = false;
        let mut p = gen::parent(m);
        while !p.is_empty() {
            if scn
                .entries
                .iter()
                .any(|e| e.path == p && e.body != Body::Dir)
            {
                file_above = true;
            }
            p = gen::parent(p);
        }
        if write_fault || dir_at || file_above {
            out.push(source.clone());
        }
    }
    out
}

fn transitive_requirers(scn: &C11Scenario, target: &str) -> BTreeSet<String> {
    let mut set: BTreeSet<String> = BTreeSet::new();
    set.insert(target.to_owned());
    loop {
        let mut changed = false;
        for meta in &scn.sources {
            if !set.contains(&meta.path) && meta.requires.iter().any(|r| set.contains(r)) {
                set.insert(meta.path.clone());
                changed = true;
            }
        }
        if !changed {
            break;
        }
    }
    set
}

pub fn io_signature(log: &[OpRec]) -> u64 {
    let mut h = 0xABCDu64;
    for rec in log {
        let tag = match &rec.outcome {
            IoOutcome::True => 1,
            IoOutcome::False => 2,
            IoOutcome::Ok => 3,
            IoOutcome::NotFound => 4,
            IoOutcome::Io(_) => 5,
            IoOutcome::Entries(n) => 6 + *n as u64,
        };
        h = mix(h, crate::rng::hash_str(rec.op as u64 * 31 + tag, &rec.path));
    }
    h
}

fn diff_paths(before: &Snapshot, after: &Snapshot) -> (Vec<String>, Vec<String>, Vec<String>) {
    let mut added = Vec::new();
    let mut changed = Vec::new();
    let mut removed = Vec::new();
    for (path, content) in after {
        match before.get(path) {
            None => added.push(path.clone()),
            Some(old) if old != content => changed.push(path.clone()),
            _ => {}
        }
    }
    for path in before.keys() {
        if !after.contains_key(path) {
            removed.push(path.clone());
        }
    }
    (added, changed, removed)
}

fn show_bytes(bytes: &Option<Vec<u8>>) -> String {
    match bytes {
        None => "<dir>".to_owned(),
        Some(b) => {
            let s = String::from_utf8_lossy(b);
            let s: String = s.chars().take(160).collect();
            format!("{:?}", s)
        }
    }
}

/// Run every check of C11 on one scenario. Returns the violations found (empty = held).
pub fn check(scn: &C11Scenario, stats: &mut RunStats) -> Result<Vec<Violation>, String> {
    let mut violations: Vec<Violation> = Vec::new();
    let lay = layout(scn, &scn.entries);
    let with_output = separate_output(&scn.opts);
    stats.files = lay.expected.len();

    // --- run under test
    let a = execute(
        scn,
        scn.entries.clone(),
        scn.faults.clone(),
        scn.walk_seed,
        scn.hash_seed,
        with_output,
    )?;
    stats.executions += 1 + a.rerun.is_some() as u64 + a.rerun_wiped.is_some() as u64;
    stats.io_signature = io_signature(&a.log);
    for (idx, _) in &a.fired {
        *stats
            .faults_fired
            .entry(format!("{:?}", scn.faults[*idx].kind))
            .or_insert(0) += 1;
    }
    for (k, v) in &a.probes {
        *stats.probes.entry((*k).to_owned()).or_insert(0) += v;
    }

    if let Outcome::Panic(msg) = &a.outcome {
        let location = msg.rsplit(" at ").next().unwrap_or("?");
        violations.push(Violation::new(
            P,
            "bounded",
            &format!("panic@{}", location),
            format!("darklua panicked: {}", msg),
        ));
        return Ok(violations);
    }
    stats.stub_validated = false;
    // (not with fail-fast: which files ran before the stop depends on the enumeration
    // order, which is not the same function of `walk_seed` on the two back ends)
    if matches!(scn.backend, Backend::RealFs | Backend::RealLib)
        && !scn.opts.fail_fast
        && !scn.entries.iter().any(|e| matches!(e.body, Body::Symlink(_)))
    {
        // validate the SimFs stub against the real arm on the same scenario
        let mut sim_scn = scn.clone();
        sim_scn.backend = Backend::SimFs;
        let s = execute(
            &sim_scn,
            scn.entries.clone(),
            Vec::new(),
            scn.walk_seed,
            scn.hash_seed,
            false,
        )?;
        stats.executions += 1;
        if s.after != a.after || s.outcome.errors() != a.outcome.errors() {
            let (ad, ch, rm) = diff_paths(&a.after, &s.after);
            stats.stub_disagreement = Some(format!(
                "SimFs and the real file system disagree: only-in-sim {:?} differing {:?} only-in-real {:?}; real {} / sim {}",
                ad,
                ch,
                rm,
                a.outcome.brief(),
                s.outcome.brief()
            ));
        } else {
            stats.stub_validated = true;
        }
    }

    // --- reference: the bad files are absent, no injected faults, canonical order
    let direct_bad = all_bad_files(scn);
    let bad_files = if scn.keep_bad_in_reference {
        Vec::new()
    } else {
        direct_bad.clone()
    };
    // ... and no stale outputs: files that already sit at a destination are dropped, so
    // the reference also shows what a run into a clean location writes
    let stale: Vec<&String> = if with_output {
        lay.mirror.values().collect()
    } else {
        Vec::new()
    };
    let ref_entries: Vec<FsEntry> = scn
        .entries
        .iter()
        .filter(|e| !bad_files.contains(&e.path))
        .filter(|e| !scn.maybe_bad.contains(&e.path))
        .filter(|e| !(matches!(e.body, Body::Text(_) | Body::Hex(_)) && stale.contains(&&e.path)))
        .cloned()
        .collect();
    let mut ref_scn = scn.clone();
    ref_scn.opts.fail_fast = false;
    if !with_output {
        // an in-place run is compared with a run of the same sources into a separate
        // location: the bytes generated for a file do not depend on where they go
        ref_scn.opts.output = Some("zz_ref_out".to_owned());
    }
    let r = execute(&ref_scn, ref_entries.clone(), Vec::new(), 0, 0, false)?;
    stats.executions += 1;

    let ref_errors = match &r.outcome {
        Outcome::Panic(msg) => {
            let location = msg.rsplit(" at ").next().unwrap_or("?");
            violations.push(Violation::new(
                P,
                "bounded",
                &format!("panic@{}", location),
                format!("darklua panicked on the reference run: {}", msg),
            ));
            return Ok(violations);
        }
        Outcome::BatchErr(ref_err) => {
            // the generator never builds an invalid invocation or configuration: a
            // reference run (no bad file, no fault) that fails as a whole means darklua
            // refuses a tree it has to process file by file
            stats.unexpected_reference_errors += 1;
            violations.push(Violation::new(
                P,
                "map",
                "healthy-project-fails",
                format!("the reference run (no faulty file, no fault) fails as a whole: {}", ref_err),
            ));
            // nothing can be said per file; the run under test must fail as a whole too
            match &a.outcome {
                Outcome::BatchErr(_) => {}
                other => violations.push(Violation::new(
                    P,
                    "report",
                    "batch-error-mismatch",
                    format!(
                        "reference run fails as a whole ({}) but the run under test gives {}",
                        ref_err,
                        other.brief()
                    ),
                )),
            }
            let (added, changed, removed) = diff_paths(&a.before, &a.after);
            if !(added.is_empty() && changed.is_empty() && removed.is_empty()) {
                violations.push(Violation::new(
                    P,
                    "map",
                    "write-on-batch-error",
                    format!(
                        "batch-level failure but the tree changed: added {:?} changed {:?} removed {:?}",
                        added, changed, removed
                    ),
                ));
            }
            return Ok(violations);
        }
        Outcome::Done { errors, .. } => errors.clone(),
    };

    let errors = match &a.outcome {
        Outcome::Done { errors, .. } => errors.clone(),
        Outcome::BatchErr(err) => {
            violations.push(Violation::new(
                P,
                "report",
                "batch-error",
                format!(
                    "a per-file fault turned into a batch-level error: {} (reference: {})",
                    err,
                    r.outcome.brief()
                ),
            ));
            return Ok(violations);
        }
        Outcome::Panic(_) => unreachable!(),
    };

    if !ref_errors.is_empty()
        && scn.bad_files.is_empty()
        && scn.faults.is_empty()
        && unwritable_sources(scn, &lay).is_empty()
    {
        // a project generated as healthy fails in the reference run: the generator (or
        // darklua) is wrong about something; counted, and visible in the evidence
        stats.unexpected_reference_errors += 1;
        // every file of such a project must get its output: an error here means that
        // darklua cannot process a tree it should (the generator's healthy projects have
        // been error free over millions of runs of the unchanged tree)
        violations.push(Violation::new(
            P,
            "map",
            "healthy-project-fails",
            format!(
                "a project without any faulty file is reported as failing: {:?}",
                ref_errors
            ),
        ));
    }
    // --- the faulty set F
    let ref_lay = layout(&ref_scn, &ref_entries);
    let mut faulty: BTreeSet<String> = BTreeSet::new();
    for bad in &direct_bad {
        if lay.expected.contains(bad) {
            faulty.insert(bad.clone());
        }
    }
    let mut luaurc_may_fail: BTreeSet<String> = BTreeSet::new();
    // a `.luaurc` that cannot be loaded fails every source it governs (the nearest one
    // above the file)
    let luaurc_dirs: Vec<String> = scn
        .entries
        .iter()
        .filter(|e| gen::file_name(&e.path) == ".luaurc")
        .map(|e| gen::parent(&e.path).to_owned())
        .collect();
    for bad in direct_bad.iter().filter(|b| gen::file_name(b) == ".luaurc") {
        let bad_dir = gen::parent(bad).to_owned();
        for source in &lay.expected {
            let nearest = luaurc_dirs
                .iter()
                .filter(|d| d.is_empty() || source.starts_with(&format!("{}/", d)))
                .max_by_key(|d| d.len());
            if nearest == Some(&bad_dir) {
                if lay.excluded.contains(source) {
                    // rules are not applied to a file the top-level filters exclude:
                    // whether the `.luaurc` is looked at for it is not promised
                    luaurc_may_fail.insert(source.clone());
                } else {
                    faulty.insert(source.clone());
                }
            }
        }
    }
    for u in unwritable_sources(scn, &lay) {
        // nothing is ever written for a source the top-level filters exclude
        if !lay.excluded.contains(&u) {
            faulty.insert(u);
        }
    }
    for text in &ref_errors {
        let candidates = attribute(text, &ref_lay);
        let ambiguous = candidates.len() > 1;
        for s in candidates {
            // an error naming a directory concerns the files written below it, never a
            // file the top-level filters exclude
            if !(ambiguous && ref_lay.excluded.contains(&s)) {
                faulty.insert(s);
            }
        }
    }
    let mut may_fail: BTreeSet<String> = faulty.clone();
    may_fail.extend(luaurc_may_fail);
    may_fail.extend(scn.maybe_bad.iter().filter(|m| lay.expected.contains(*m)).cloned());
    if scn.transient {
        for rule in &scn.faults {
            if rule.nth.is_none() {
                continue;
            }
            match rule.kind.op() {
                OpKind::Get => {
                    for s in transitive_requirers(scn, &rule.path) {
                        may_fail.insert(s);
                    }
                }
                OpKind::Write => {
                    for (source, mirror) in &lay.mirror {
                        if *mirror == rule.path {
                            may_fail.insert(source.clone());
                        }
                    }
                }
                _ => {}
            }
        }
    }

    // --- report
    let mut reported: BTreeMap<String, Vec<String>> = BTreeMap::new();
    let mut ambiguous: Vec<(String, Vec<String>)> = Vec::new();
    for text in &errors {
        let sources = attribute(text, &lay);
        if sources.is_empty() {
            violations.push(Violation::new(
                P,
                "report",
                "unattributable-error",
                format!("error does not name a processed file: {:?}", text),
            ));
        } else if sources.len() == 1 {
            reported
                .entry(sources[0].clone())
                .or_default()
                .push(text.clone());
        } else {
            let sources: Vec<String> = sources
                .into_iter()
                .filter(|s| !lay.excluded.contains(s))
                .collect();
            ambiguous.push((text.clone(), sources));
        }
    }
    // an error naming a directory shared by several destinations belongs to one of the
    // sources below it: give each such error to a candidate that has none yet, faulty
    // candidates first
    // most constrained first, so that the assignment does not depend on the order (or the
    // wording) of the error texts
    ambiguous.sort_by_key(|(_, sources)| sources.len());
    for (text, sources) in ambiguous {
        if sources.is_empty() {
            violations.push(Violation::new(
                P,
                "report",
                "unattributable-error",
                format!("error does not name a processed file: {:?}", text),
            ));
            continue;
        }
        let target = sources
            .iter()
            .find(|s| may_fail.contains(*s) && !reported.contains_key(*s))
            .or_else(|| sources.iter().find(|s| !reported.contains_key(*s)))
            .unwrap_or(&sources[0])
            .clone();
        reported.entry(target).or_default().push(text);
    }
    for (source, texts) in &reported {
        if !may_fail.contains(source) {
            violations.push(Violation::new(
                P,
                "report",
                "healthy-file-reported",
                format!("healthy file `{}` reported as failing: {:?}", source, texts),
            ));
        }
        // a file reported more than once is still "reported with its path": counted only
        if texts.len() > 1 {
            stats.duplicate_reports += 1;
        }
    }
    if scn.opts.fail_fast {
        if !faulty.is_empty() && errors.is_empty() {
            violations.push(Violation::new(
                P,
                "report",
                "missing-error",
                format!("fail-fast run reports no error although {:?} are faulty", faulty),
            ));
        }
        if errors.len() > 1 {
            violations.push(Violation::new(
                P,
                "report",
                "fail-fast-continued",
                format!("fail-fast run reports {} errors: {:?}", errors.len(), errors),
            ));
        }
    } else {
        // "reported with its path": the path of the failing *source* appears in what the
        // run reports - the collected error or an error-level log record / the standard
        // error stream (a failed `create_dir_all` names only the directory in the error
        // itself; the per-file log line is what names the source then)
        for (source, texts) in &reported {
            if !may_fail.contains(source) {
                continue;
            }
            let named = texts.iter().any(|t| mention(t, source).is_some())
                || a.error_logs.iter().any(|t| mention(t, source).is_some());
            if named {
                stats.sources_named += 1;
            } else {
                violations.push(Violation::new(
                    P,
                    "report",
                    "source-not-named",
                    format!(
                        "failing file `{}` is reported without its path: errors {:?}, error-level log {:?}",
                        source, texts, a.error_logs
                    ),
                ));
            }
        }
        for f in &faulty {
            if !reported.contains_key(f) {
                violations.push(Violation::new(
                    P,
                    "report",
                    "missing-error",
                    format!(
                        "faulty file `{}` is not reported (errors: {:?}; reference errors: {:?})",
                        f, errors, ref_errors
                    ),
                ));
            }
        }
    }
    // the effective faulty set of this run
    let mut effective: BTreeSet<String> = if scn.transient {
        let mut e = faulty.clone();
        e.extend(reported.keys().cloned());
        e
    } else {
        faulty.clone()
    };
    effective.extend(scn.maybe_bad.iter().filter(|m| reported.contains_key(*m)).cloned());
    for (source, texts) in &reported {
        let mirror = lay.mirror.get(source).cloned().unwrap_or_default();
        for text in texts {
            let mut names_it = mention(text, source).is_some() || mention(text, &mirror).is_some();
            let mut p = gen::parent(&mirror);
            while !names_it && !p.is_empty() {
                names_it = mention(text, p).is_some();
                p = gen::parent(p);
            }
            if !names_it {
                violations.push(Violation::new(
                    P,
                    "report",
                    "error-without-path",
                    format!("error for `{}` does not name it: {:?}", source, text),
                ));
            }
        }
    }

    // --- map / isolate / nowrite on the final state
    let healthy: Vec<&String> = lay
        .expected
        .iter()
        .filter(|s| !effective.contains(*s) && !lay.excluded.contains(*s) && !scn.maybe_bad.contains(*s))
        .collect();
    // destinations of "maybe bad" sources that were not reported: writing them is fine
    let maybe_mirrors: BTreeSet<String> = scn
        .maybe_bad
        .iter()
        .filter(|m| !reported.contains_key(*m))
        .filter_map(|m| lay.mirror.get(m).cloned())
        .collect();
    stats.healthy_ratio_num += healthy.len() as u64;
    stats.healthy_ratio_den += lay.expected.len() as u64;
    let healthy_mirrors: BTreeSet<String> =
        healthy.iter().map(|s| lay.mirror[*s].clone()).collect();
    let faulted_write_mirrors: BTreeSet<String> = scn
        .faults
        .iter()
        .filter(|f| f.kind.op() == OpKind::Write)
        .map(|f| f.path.clone())
        .collect();
    for source in &healthy {
        let m = &lay.mirror[*source];
        let got = a.after.get(m);
        let want = match ref_lay.mirror.get(*source) {
            Some(rm) => r.after.get(rm),
            None => None,
        };
        match (got, want) {
            (None, _) | (Some(None), _) => {
                if scn.opts.fail_fast && !effective.is_empty() {
                    // legitimately not reached before the stop
                } else {
                    violations.push(Violation::new(
                        P,
                        "map",
                        "missing-output",
                        format!("no output at `{}` for healthy source `{}`", m, source),
                    ));
                }
            }
            (Some(got), Some(want)) => {
                let untouched = a.before.get(m) == Some(got);
                if scn.opts.fail_fast && !effective.is_empty() && untouched {
                    // not reached before the stop: whatever was there is still there
                } else if got != want {
                    violations.push(Violation::new(
                        P,
                        "isolate",
                        "output-differs-from-reference",
                        format!(
                            "output `{}` of healthy `{}` differs from the run without the bad files:\n got  {}\n want {}",
                            m,
                            source,
                            show_bytes(got),
                            show_bytes(want)
                        ),
                    ));
                }
            }
            (Some(_), None) => {
                violations.push(Violation::new(
                    P,
                    "isolate",
                    "reference-has-no-output",
                    format!(
                        "reference run has no output at `{}` for `{}` (reference: {})",
                        m,
                        source,
                        r.outcome.brief()
                    ),
                ));
            }
        }
    }
    let (added, changed, removed) = diff_paths(&a.before, &a.after);
    for path in added.iter().chain(changed.iter()) {
        let is_dir = matches!(a.after.get(path), Some(None));
        if is_dir {
            // a new directory is fine only as an ancestor of a written or attempted output
            let prefix = format!("{}/", path);
            let ok = lay.mirror.values().any(|m| m.starts_with(&prefix));
            if !ok {
                violations.push(Violation::new(
                    P,
                    "map",
                    "stray-directory",
                    format!("directory `{}` was created for no output", path),
                ));
            }
            continue;
        }
        if healthy_mirrors.contains(path) || maybe_mirrors.contains(path) {
            continue;
        }
        if faulted_write_mirrors.contains(path) {
            // narrow relaxation: the environment may have left the faulted destination
            // empty or torn
            continue;
        }
        let is_faulty_mirror = effective.iter().any(|f| lay.mirror.get(f) == Some(path));
        if is_faulty_mirror {
            violations.push(Violation::new(
                P,
                "nowrite",
                "faulty-file-output-written",
                format!(
                    "`{}` (destination of a file reported faulty) was written: {}",
                    path,
                    show_bytes(a.after.get(path).unwrap())
                ),
            ));
        } else {
            let was_input = lay.expected.contains(path);
            violations.push(Violation::new(
                P,
                "map",
                if was_input && with_output {
                    "input-modified"
                } else {
                    "stray-write"
                },
                format!("`{}` was written but is nobody's destination", path),
            ));
        }
    }
    for path in &removed {
        violations.push(Violation::new(
            P,
            "map",
            "removed",
            format!("`{}` existed before the run and is gone", path),
        ));
    }
    // --- the same from the op log (catches write-then-restore and redundant writes)
    let mut writes_per_path: BTreeMap<String, u32> = BTreeMap::new();
    for rec in &a.log {
        match rec.op {
            OpKind::Write => {
                let ok = rec.outcome == IoOutcome::Ok;
                if ok {
                    *writes_per_path.entry(rec.path.clone()).or_insert(0) += 1;
                }
                let target_ok = healthy_mirrors.contains(&rec.path)
                    || maybe_mirrors.contains(&rec.path)
                    || (!ok
                        && effective
                            .iter()
                            .any(|f| lay.mirror.get(f) == Some(&rec.path)));
                if !target_ok {
                    violations.push(Violation::new(
                        P,
                        if effective
                            .iter()
                            .any(|f| lay.mirror.get(f) == Some(&rec.path))
                        {
                            "nowrite"
                        } else {
                            "map"
                        },
                        "logged-write",
                        format!(
                            "write call #{} to `{}` ({:?}) is not the output of a healthy file",
                            rec.seq, rec.path, rec.outcome
                        ),
                    ));
                }
            }
            OpKind::Remove => {
                violations.push(Violation::new(
                    P,
                    "map",
                    "logged-remove",
                    format!("remove call #{} on `{}` during a batch run", rec.seq, rec.path),
                ));
            }
            _ => {}
        }
    }
    // an output written more than once in one run still is one output: counted only
    stats.rewritten_outputs += writes_per_path.values().filter(|c| **c > 1).count() as u64;

    // --- report: the number of files announced as processed is the number of outputs that
    // were written (simulated file system: every successful write is in the op log; a file
    // the top-level filters exclude counts as processed without an output, so projects with
    // such filters are left out)
    if let (Outcome::Done { success, .. }, true, true) =
        (&a.outcome, scn.backend == Backend::SimFs, lay.excluded.is_empty())
    {
        let mirrors: BTreeSet<&String> = lay.mirror.values().collect();
        let written = writes_per_path.keys().filter(|p| mirrors.contains(*p)).count();
        if *success != written {
            violations.push(Violation::new(
                P,
                "report",
                "success-count",
                format!(
                    "{} file(s) are announced as successfully processed but {} output(s) were written",
                    success, written
                ),
            ));
        } else {
            stats.success_counts_checked += 1;
        }
    }

    // --- determinism: rerun over the resulting state
    if let Some((outcome2, after2, _log2)) = &a.rerun {
        if let Outcome::Panic(msg) = outcome2 {
            let location = msg.rsplit(" at ").next().unwrap_or("?");
            violations.push(Violation::new(
                P,
                "bounded",
                &format!("panic@{}", location),
                format!("darklua panicked on the second run: {}", msg),
            ));
        } else if !scn.transient && !scn.opts.fail_fast {
            if *after2 != a.after {
                let (ad, ch, rm) = diff_paths(&a.after, after2);
                violations.push(Violation::new(
                    P,
                    "determinism",
                    "second-run-differs",
                    format!(
                        "running twice changes the tree: added {:?} changed {:?} removed {:?}",
                        ad, ch, rm
                    ),
                ));
            }
            if outcome2.errors() != a.outcome.errors() {
                violations.push(Violation::new(
                    P,
                    "determinism",
                    "second-run-errors-differ",
                    format!(
                        "errors differ between first and second run: {:?} vs {:?}",
                        a.outcome.errors(),
                        outcome2.errors()
                    ),
                ));
            }
        }
    }

    // --- determinism: the output location disappears behind darklua's back and the same
    // `Resources` value is used for one more run: every output comes back as it was
    if let Some((outcome3, after3)) = &a.rerun_wiped {
        if let Outcome::Panic(msg) = outcome3 {
            let location = msg.rsplit(" at ").next().unwrap_or("?");
            violations.push(Violation::new(
                P,
                "bounded",
                &format!("panic@{}", location),
                format!("darklua panicked on the run after the output location was deleted: {}", msg),
            ));
        } else if !scn.transient
            && !scn.opts.fail_fast
            && scn.faults.is_empty()
            && unwritable_sources(scn, &lay).is_empty()
            // with a single-file input the layout depends on what the output path is
            // before the run (existing directory, existing file, nothing)
            && !scn
                .entries
                .iter()
                .any(|e| e.path == gen::normalize(&scn.opts.input) && e.body != Body::Dir)
        {
            stats.wiped_reruns += 1;
            let mut differing: Vec<String> = Vec::new();
            for source in &healthy {
                let m = &lay.mirror[*source];
                if a.after.get(m) != after3.get(m) {
                    differing.push(format!(
                        "`{}`: first run {}, after the wipe {}",
                        m,
                        a.after.get(m).map(show_bytes).unwrap_or_else(|| "nothing".to_owned()),
                        after3.get(m).map(show_bytes).unwrap_or_else(|| "nothing".to_owned())
                    ));
                }
            }
            if !differing.is_empty() || outcome3.errors() != a.outcome.errors() {
                violations.push(Violation::new(
                    P,
                    "determinism",
                    "rerun-after-wipe-differs",
                    format!(
                        "a run after the output location was deleted differs from the first run: {:?}; errors {:?} vs {:?}",
                        differing,
                        a.outcome.errors(),
                        outcome3.errors()
                    ),
                ));
            }
        }
    }

    // --- determinism: another enumeration order and hash order, same initial state
    {
        let (ws, hs) = if scn.opts.fail_fast || scn.transient {
            (scn.walk_seed, scn.hash_seed)
        } else {
            (scn.alt_walk_seed, scn.alt_hash_seed)
        };
        let b = execute(scn, scn.entries.clone(), scn.faults.clone(), ws, hs, false)?;
        stats.executions += 1;
        stats.orders_compared = if (ws, hs) == (scn.walk_seed, scn.hash_seed) {
            1
        } else {
            2
        };
        if let Outcome::Panic(msg) = &b.outcome {
            let location = msg.rsplit(" at ").next().unwrap_or("?");
            violations.push(Violation::new(
                P,
                "bounded",
                &format!("panic@{}", location),
                format!("darklua panicked under another order: {}", msg),
            ));
        } else {
            if b.after != a.after {
                let (ad, ch, rm) = diff_paths(&a.after, &b.after);
                let detail = ch
                    .first()
                    .map(|p| {
                        format!(
                            "\n `{}`:\n  one   {}\n  other {}",
                            p,
                            show_bytes(a.after.get(p).unwrap()),
                            show_bytes(b.after.get(p).unwrap())
                        )
                    })
                    .unwrap_or_default();
                violations.push(Violation::new(
                    P,
                    "determinism",
                    "order-dependent-output",
                    format!(
                        "outputs depend on enumeration/hash order: only-in-other {:?} differing {:?} only-in-one {:?}{}",
                        ad, ch, rm, detail
                    ),
                ));
            }
            if b.outcome.errors() != a.outcome.errors() {
                violations.push(Violation::new(
                    P,
                    "determinism",
                    "order-dependent-errors",
                    format!(
                        "error set depends on enumeration/hash order: {:?} vs {:?}",
                        a.outcome.errors(),
                        b.outcome.errors()
                    ),
                ));
            }
        }
    }

    stats.nontrivial = lay.expected.len() >= 2 && (!a.fired.is_empty() || stats.orders_compared >= 2);
    Ok(violations)
}

// ------------------------------------------------------------------ generation

fn hex_invalid_utf8(marker: &str) -> Body {
    let mut bytes = format!("mark(\"{}\")\nlocal s = \"", marker).into_bytes();
    bytes.extend_from_slice(&[0xff, 0xfe, 0xc3, 0x28]);
    bytes.extend_from_slice(b"\"\nreturn s\n");
    Body::from_bytes(&bytes)
}

fn set_entry(entries: &mut Vec<FsEntry>, path: &str, body: Body) {
    if let Some(e) = entries.iter_mut().find(|e| e.path == path) {
        e.body = body;
    } else {
        entries.push(FsEntry {
            path: path.to_owned(),
            body,
        });
    }
}

pub fn generate(seed: u64) -> C11Scenario {
    let mut rp = Rng::stream(seed, "project");
    let mut rc = Rng::stream(seed, "config");
    let mut rf = Rng::stream(seed, "faults");
    let mut ro = Rng::stream(seed, "orders");
    let mut rk = Rng::stream(seed, "knobs");

    let backend = if crate::tierb::available() && rk.chance(1, 8) {
        Backend::RealFs
    } else if rk.chance(1, 10) {
        Backend::RealLib
    } else if rk.chance(1, 6) {
        Backend::Memory
    } else {
        Backend::SimFs
    };
    let real = backend == Backend::RealFs;
    let minify = real && rk.chance(1, 4);
    let knobs = ProjectKnobs {
        max_sources: 8,
        allow_file_input: true,
        allow_bundle: true,
        memory_safe: backend == Backend::Memory,
        allow_outside: matches!(backend, Backend::SimFs | Backend::Memory),
        allow_source_alias: true,
        allow_late_luaurc: true,
    };
    let mut project = gen::gen_project(&mut rp, &knobs);
    if minify {
        project.convert = false;
        project.bundle = None;
        for s in project.sources.iter_mut() {
            s.requires.clear();
        }
        project.data.clear();
    }
    if minify {
        project.sources.retain(|s| !s.via_source);
    }
    let mut parts = gen::gen_config_parts(&mut rc, project.bundle.as_deref());
    parts.bundle_sources = project.sources.iter().any(|s| s.via_source);
    parts.bundle_luau_aliases = project.config_alias.iter().cloned().collect();
    let mut convert_to_path = false;
    if project.convert {
        if rc.chance(1, 3) {
            // target = path mode with nested aliases instead of Roblox instance paths
            parts.convert_path_aliases = Some(project.input.clone());
            convert_to_path = true;
        } else {
            parts.convert_sourcemap = Some("sourcemap.json".to_owned());
        }
    }
    if !minify && rc.chance(1, 5) {
        // top-level filters: files they exclude are skipped entirely (no output)
        // patterns from the pool, or anchored at the input directory (which may be a
        // hidden directory: a pattern starting with a dot)
        let input_dir = if project.input_is_file {
            gen::parent(&project.input).to_owned()
        } else {
            project.input.clone()
        };
        let pattern = |rc: &mut Rng| -> String {
            if !input_dir.is_empty() && rc.chance(1, 3) {
                format!("{}/{}", input_dir, *rc.pick(&["**", "*", "**/*.lua", "sub/**", "*/*"]))
            } else {
                (*rc.pick(gen::FILTER_PATTERNS)).to_owned()
            }
        };
        let n = rc.range(0, 2);
        for _ in 0..n {
            let p = pattern(&mut rc);
            parts.apply_to_files.push(p);
        }
        if n == 0 || rc.chance(1, 3) {
            let p = pattern(&mut rc);
            parts.skip_files.push(p);
        }
    }
    // a rule that fails for every file: the header file of `append_text_comment` does not
    // exist (it is read with std::fs, outside the simulated file system): every source has
    // to be reported, whichever is processed first
    let header_missing = !minify && rc.chance(1, 25);
    if header_missing {
        let rule = "{\"rule\":\"append_text_comment\",\"file\":\"verif-no-such-header.txt\"}".to_owned();
        match parts.rules.as_mut() {
            Some(rules) => rules.push(rule),
            None => parts.rules = Some(vec![rule]),
        }
    }
    let config_text = parts.to_text();
    let mut invocation =
        gen::gen_invocation(&mut rk, &project, &config_text, true, !real, backend, true);
    project.source_base = match &invocation.opts.config {
        crate::model::ConfigSource::Object(_) => gen::SourceBase::RequirerDir,
        crate::model::ConfigSource::Default => gen::SourceBase::Dir(String::new()),
        crate::model::ConfigSource::At(path) => gen::SourceBase::Dir(gen::parent(path).to_owned()),
    };
    if project.convert && !convert_to_path {
        // the sourcemap sits next to the configuration file
        let config_path = invocation
            .extra_entries
            .iter()
            .find(|e| matches!(&e.body, Body::Text(t) if *t == config_text))
            .map(|e| e.path.clone())
            .unwrap_or_else(|| ".darklua.json".to_owned());
        let sourcemap_path = gen::join(gen::parent(&config_path), "sourcemap.json");
        let paths: Vec<String> = project.sources.iter().map(|s| s.path.clone()).collect();
        invocation.extra_entries.push(FsEntry {
            path: sourcemap_path.clone(),
            body: Body::Text(gen::render_sourcemap(&paths, &sourcemap_path, "Project")),
        });
    }
    if minify {
        let span = *rk.pick(&[80usize, 20, 1, 120]);
        invocation.opts.config = crate::model::ConfigSource::Object(format!(
            "{{\"rules\":[],\"generator\":{{\"name\":\"dense\",\"column_span\":{}}}}}",
            span
        ));
        invocation.opts.generator_override = None;
        invocation
            .extra_entries
            .retain(|e| !e.path.starts_with(".darklua") && !e.path.contains("config") && !e.path.starts_with("cfg/"));
    }
    let mut opts = invocation.opts;
    opts.fail_fast = !real && rk.chance(1, 5);
    if opts.output.is_none() && project.bundle.is_some() {
        // bundling in place reads sibling inputs that the same run overwrites: the
        // inputs are then not a fixed snapshot and order legitimately matters
        // (DESIGN.md §3.1, excluded like output-inside-input)
        opts.output = Some("out".to_owned());
    }

    let mut bad_files: Vec<String> = Vec::new();
    if header_missing {
        // not a file of the tree: it only marks the project as one that is meant to fail
        bad_files.push("verif-no-such-header.txt".to_owned());
    }
    let unwritable: Vec<String> = Vec::new();
    let mut faults: Vec<FaultRule> = Vec::new();
    let mut transient = false;
    let mut overrides: Vec<(String, Body)> = Vec::new();
    let mut extra: Vec<FsEntry> = invocation.extra_entries;

    // which sources darklua will pick up
    let expected: Vec<usize> = if project.input_is_file {
        vec![0]
    } else {
        (0..project.sources.len()).collect()
    };

    let mode = rf.below(10);
    let sim = backend == Backend::SimFs;
    if mode >= 3 {
        let n_faults = if mode >= 8 { rf.range(2, 4) } else { 1 };
        let want_transient = sim && mode == 7;
        for _ in 0..n_faults {
            let victim = rf.below(project.sources.len());
            let victim_path = project.sources[victim].path.clone();
            let marker = gen::Project::marker(victim, 0);
            if want_transient {
                transient = true;
                if rf.chance(1, 2) {
                    // n-th read of a source/module
                    let kind = *rf.pick(&[
                        FaultKind::GetNotFound,
                        FaultKind::GetEio,
                        FaultKind::GetEacces,
                    ]);
                    faults.push(FaultRule {
                        kind,
                        path: victim_path.clone(),
                        nth: Some(rf.below(3) as u32),
                        epoch: None,
                    });
                } else if expected.contains(&victim) {
                    faults.push(FaultRule {
                        kind: *rf.pick(&[
                            FaultKind::WriteEacces,
                            FaultKind::WriteEnospc,
                            FaultKind::WriteTorn,
                        ]),
                        path: String::new(), // mirror filled in below
                        nth: Some(0),
                        epoch: None,
                    });
                    let idx = faults.len() - 1;
                    faults[idx].path = format!("@mirror:{}", victim_path);
                }
                continue;
            }
            let pick = if real || backend == Backend::RealLib {
                *rf.pick(&[0usize, 1, 2, 3, 4, 8, 9, 10, 10])
            } else if sim {
                rf.below(10)
            } else {
                rf.below(4)
            };
            // a `.luaurc` that cannot be loaded: every file it governs must be reported
            // (and only those), whichever of them is processed first
            let luaurcs: Vec<String> = project
                .other
                .iter()
                .filter(|e| gen::file_name(&e.path) == ".luaurc")
                .map(|e| e.path.clone())
                .collect();
            if !luaurcs.is_empty()
                && (project.bundle.is_some() || project.convert)
                && parts.apply_to_files.is_empty()
                && parts.skip_files.is_empty()
                && !bad_files.iter().any(|b| gen::file_name(b) == ".luaurc")
                && rf.chance(1, 4)
            {
                let path = rf.pick(&luaurcs).clone();
                overrides.push((path.clone(), Body::Text("{ \"aliases\": { \"lib\": ".to_owned())));
                bad_files.push(path);
                continue;
            }
            match pick {
                0 | 1 => {
                    let body = rf.pick(corpus::SYNTAX_ERRORS).replace("{M}", &format!("\"{}\"", marker));
                    overrides.push((victim_path.clone(), Body::Text(body)));
                    bad_files.push(victim_path);
                }
                2 => {
                    if project.bundle.is_some()
                        && !(project.bundle.as_deref() == Some("luau")
                            && gen::is_module_folder_file(&victim_path))
                    {
                        let missing = gen::join(gen::parent(&victim_path), "does-not-exist.lua");
                        project.sources[victim].requires.push(missing);
                        if rf.chance(1, 2) {
                            // several missing requires with long non-ASCII names: a long
                            // error message full of multi-byte characters
                            for k in 0..3 {
                                project.sources[victim].requires.push(gen::join(
                                    gen::parent(&victim_path),
                                    &format!("見つかりません-ドキュメント-été-ünï-{}.lua", k),
                                ));
                            }
                        }
                        bad_files.push(victim_path);
                    }
                }
                3 => {
                    let other = if project.sources.len() >= 2 {
                        (victim + 1 + rf.below(project.sources.len() - 1)) % project.sources.len()
                    } else {
                        victim
                    };
                    if project.bundle.is_some()
                        && project.sources.len() >= 2
                        && !project.sources[victim].use_alias
                        && !project.sources[other].use_alias
                        && !(project.bundle.as_deref() == Some("luau")
                            && (gen::is_module_folder_file(&project.sources[victim].path)
                                || gen::is_module_folder_file(&project.sources[other].path)))
                    {
                        // a require cycle
                        let (a, b) = (victim.min(other), victim.max(other));
                        // the added requires must resolve to exactly these files
                        project.sources[a].bare = false;
                        project.sources[b].bare = false;
                        let pa = project.sources[a].path.clone();
                        let pb = project.sources[b].path.clone();
                        if !project.sources[a].requires.contains(&pb) {
                            project.sources[a].requires.push(pb.clone());
                        }
                        if !project.sources[b].requires.contains(&pa) {
                            project.sources[b].requires.push(pa.clone());
                        }
                    } else if let Some((path, _)) = project.data.first().cloned() {
                        let bad = if path.ends_with(".json") {
                            Some(corpus::BAD_JSON)
                        } else if path.ends_with(".yaml") {
                            Some(corpus::BAD_YAML)
                        } else if path.ends_with(".toml") {
                            Some(corpus::BAD_TOML)
                        } else {
                            None
                        };
                        if let Some(bad) = bad {
                            overrides.push((
                                path.clone(),
                                Body::Text(corpus::render_data(bad, "bad")),
                            ));
                            bad_files.push(path);
                        }
                    }
                }
                4 => {
                    overrides.push((victim_path.clone(), hex_invalid_utf8(&marker)));
                    bad_files.push(victim_path);
                }
                5 | 6 => {
                    // the file cannot be read at all
                    let kind = *rf.pick(&[
                        FaultKind::GetNotFound,
                        FaultKind::GetEio,
                        FaultKind::GetEacces,
                    ]);
                    faults.push(FaultRule {
                        kind,
                        path: victim_path.clone(),
                        nth: None,
                        epoch: None,
                    });
                }
                7 => {
                    if expected.contains(&victim) {
                        faults.push(FaultRule {
                            kind: *rf.pick(&[
                                FaultKind::WriteEacces,
                                FaultKind::WriteEnospc,
                                FaultKind::WriteTorn,
                            ]),
                            path: format!("@mirror:{}", victim_path),
                            nth: None,
                            epoch: None,
                        });
                    }
                }
                8 => {
                    // a directory sits at the destination (EISDIR)
                    if expected.contains(&victim) && opts.output.is_some() {
                        extra.push(FsEntry {
                            path: format!("@mirror:{}", victim_path),
                            body: Body::Dir,
                        });
                    }
                }
                10 => {
                    // the destination is a symbolic link to /dev/full: every byte written
                    // fails with ENOSPC (real file system only)
                    // (an output of zero bytes is "written" to a full device without error)
                    if expected.contains(&victim)
                        && opts.output.is_some()
                        && project.sources[victim].body_index < corpus::FIRST_EMPTY_BODY
                    {
                        extra.push(FsEntry {
                            path: format!("@mirror:{}", victim_path),
                            body: Body::Symlink("/dev/full".to_owned()),
                        });
                    }
                }
                _ => {
                    // a file sits where a directory of the destination must be (ENOTDIR)
                    if expected.contains(&victim) && opts.output.is_some() && !project.input_is_file
                    {
                        extra.push(FsEntry {
                            path: format!("@mirrorparent:{}", victim_path),
                            body: Body::Text("a file in the way\n".to_owned()),
                        });
                    }
                }
            }
        }
    }

    // cycle members are bad files (when requires are inlined: without bundling a cycle of
    // requires is just a cycle of strings)
    if project.bundle.is_some() {
        let paths: Vec<String> = project.sources.iter().map(|s| s.path.clone()).collect();
        for (i, p) in paths.iter().enumerate() {
            // does i reach itself?
            let mut seen: BTreeSet<usize> = BTreeSet::new();
            let mut stack: Vec<usize> = vec![i];
            let mut cyclic = false;
            while let Some(x) = stack.pop() {
                for r in &project.sources[x].requires {
                    if let Some(j) = paths.iter().position(|q| q == r) {
                        if j == i {
                            cyclic = true;
                        }
                        if seen.insert(j) {
                            stack.push(j);
                        }
                    }
                }
            }
            if cyclic && !bad_files.contains(p) {
                bad_files.push(p.clone());
            }
        }
    }

    let mut entries = project.entries();
    for (path, body) in overrides {
        set_entry(&mut entries, &path, body);
    }
    let mut maybe_bad: Vec<String> = Vec::new();
    if !project.input_is_file && !minify && rk.chance(1, 10) {
        // a script starting with `#!`: this darklua version refuses it when tokens are
        // preserved (retain_lines) and accepts it otherwise; whatever happens to it, the
        // files around it must be processed as if it were absent
        let path = gen::join(&gen::normalize(&project.input), "zz-script.lua");
        if !entries.iter().any(|e| e.path == path) {
            entries.push(FsEntry {
                path: path.clone(),
                body: Body::Text("#!/usr/bin/env lua\n-- a script\nmark(\"shebang\")\nreturn   1\n".to_owned()),
            });
            maybe_bad.push(path);
        }
    }
    if matches!(backend, Backend::RealFs | Backend::RealLib)
        && !project.input_is_file
        && opts.output.is_some()
        && rk.chance(1, 4)
    {
        // a symbolic link to a Lua file that lives outside the input: it is a source like
        // any other (the walk follows links)
        let input_dir = gen::normalize(&project.input);
        let link = gen::join(&input_dir, "zz-linked.lua");
        let ups = "../".repeat(input_dir.split('/').filter(|c| !c.is_empty()).count());
        if !entries.iter().any(|e| e.path == link) {
            entries.push(FsEntry {
                path: "link-target.lua".to_owned(),
                body: Body::Text("-- reached through a link\nmark(\"linked\")\nreturn { \"linked\" }\n".to_owned()),
            });
            entries.push(FsEntry {
                path: link,
                body: Body::Symlink(format!("{}link-target.lua", ups)),
            });
        }
    }
    if matches!(backend, Backend::RealFs | Backend::RealLib) && !project.input_is_file && rk.chance(1, 3) {
        // entries whose metadata cannot be read (dangling symbolic links) next to the
        // sources: they are skipped with a warning; no sibling may get lost with them
        let input_dir = gen::normalize(&project.input);
        for name in ["dangling-link", "aa-dangling", "sub/zz-dangling", "other dir/mm-dangling"] {
            if rk.chance(1, 2) {
                entries.push(FsEntry {
                    path: gen::join(&input_dir, name),
                    body: Body::Symlink("/nonexistent/dvsim-target".to_owned()),
                });
            }
        }
    }
    // resolve @mirror placeholders now that the layout is known
    let mut scn = C11Scenario {
        seed,
        backend,
        entries: Vec::new(),
        opts,
        sources: project.metas(),
        bad_files,
        unwritable,
        faults: Vec::new(),
        transient,
        walk_seed: ro.next_u64(),
        hash_seed: ro.next_u64(),
        alt_walk_seed: ro.next_u64(),
        alt_hash_seed: ro.next_u64(),
        keep_bad_in_reference: project.convert,
        maybe_bad,
        trace_logs: false,
    };
    // extra entries that do not depend on the layout first (they define the layout)
    for e in extra.iter().filter(|e| !e.path.starts_with('@')) {
        set_entry(&mut entries, &e.path, e.body.clone());
    }
    scn.entries = entries.clone();
    let lay = layout(&scn, &entries);
    for e in extra.iter().filter(|e| e.path.starts_with('@')) {
        if let Some(src) = e.path.strip_prefix("@mirror:") {
            if let Some(m) = lay.mirror.get(src) {
                if !entries.iter().any(|x| x.path == *m) {
                    set_entry(&mut entries, m, e.body.clone());
                }
            }
        } else if let Some(src) = e.path.strip_prefix("@mirrorparent:") {
            if let (Some(m), Some(output)) = (lay.mirror.get(src), scn.opts.output.as_ref()) {
                let p = gen::parent(m).to_owned();
                let out_norm = gen::normalize(output);
                let blocked_is_free = !entries
                    .iter()
                    .any(|x| x.path == p || x.path.starts_with(&format!("{}/", p)));
                if p != out_norm && p.starts_with(&format!("{}/", out_norm)) && blocked_is_free {
                    set_entry(&mut entries, &p, e.body.clone());
                }
            }
        }
    }
    // stale outputs: something (longer than any output) already sits at some destinations
    if scn.opts.output.is_some() && rk.chance(1, 3) {
        let junk = format!(
            "-- stale output from an earlier run\n{}return 'stale'\n",
            "local filler = 'xxxxxxxxxxxxxxxxxxxxxxxxxxxxxxxxxxxxxxxxxxxxxxxxxxxxxxxxxxxxxxxx'\n".repeat(40)
        );
        // ... sometimes not even text (an old compiled file, another encoding): darklua
        // only ever overwrites a destination, it has no business reading it
        let binary = rk.chance(1, 4);
        for (i, m) in lay.mirror.values().enumerate() {
            if (i + rk.below(2)) % 2 == 0 && !entries.iter().any(|e| e.path == *m) {
                let body = if binary && backend != Backend::Memory {
                    Body::from_bytes(&[0x1b, b'L', b'u', b'a', 0xff, 0xfe, 0x00, 0xc3, 0x28, b'\n'])
                } else {
                    Body::Text(junk.clone())
                };
                set_entry(&mut entries, m, body);
            }
        }
    }
    // a file entry cannot have entries below it: the blocker wins
    let file_paths: Vec<String> = entries
        .iter()
        .filter(|e| e.body != Body::Dir)
        .map(|e| e.path.clone())
        .collect();
    entries.retain(|e| {
        !file_paths
            .iter()
            .any(|f| e.path.starts_with(&format!("{}/", f)))
    });
    // the blockers may have changed the layout (an output that now is a directory)
    scn.entries = entries.clone();
    let lay = layout(&scn, &entries);
    for mut rule in faults {
        if let Some(src) = rule.path.strip_prefix("@mirror:") {
            match lay.mirror.get(src) {
                Some(m) => rule.path = m.clone(),
                None => continue,
            }
        }
        scn.faults.push(rule);
    }
    scn.bad_files.sort();
    scn.bad_files.dedup();
    scn.unwritable = unwritable_sources(&scn, &lay);
    scn.entries = entries;
    // the working directory itself as OUTPUT location (`darklua process src .`), for
    // fault-free projects: what was prepared at the former output location goes away
    if !project.input_is_file
        && scn.bad_files.is_empty()
        && scn.faults.is_empty()
        && scn.unwritable.is_empty()
        && separate_output(&scn.opts)
        && backend != Backend::RealFs
        && rk.chance(1, 12)
    {
        let old_output = scn.opts.output.as_ref().map(|o| gen::normalize(o)).unwrap_or_default();
        let first = gen::normalize(&project.input).split('/').next().unwrap_or("").to_owned();
        if !old_output.is_empty() && !old_output.starts_with("..") {
            scn.entries
                .retain(|e| e.path != old_output && !e.path.starts_with(&format!("{}/", old_output)));
            scn.opts.output = Some(match rk.below(3) {
                0 => ".".to_owned(),
                1 => "./".to_owned(),
                _ if !first.is_empty() && !first.contains('.') => format!("{}/..", first),
                _ => ".".to_owned(),
            });
        }
    }
    // the working directory itself as input (`darklua process . ../dot-out`): a plain,
    // fault-free project is moved up so that its sources sit directly in the cwd
    if backend == Backend::SimFs
        && !project.input_is_file
        && project.bundle.is_none()
        && !project.convert
        && project.aliases.is_empty()
        && scn.bad_files.is_empty()
        && scn.faults.is_empty()
        && scn.unwritable.is_empty()
        && separate_output(&scn.opts)
        && rk.chance(1, 8)
    {
        let input_dir = gen::normalize(&project.input);
        let old_output = scn.opts.output.as_ref().map(|o| gen::normalize(o)).unwrap_or_default();
        let prefix = format!("{}/", input_dir);
        let strip = |p: &str| -> String { p.strip_prefix(&prefix).unwrap_or(p).to_owned() };
        let mut moved: Vec<FsEntry> = Vec::new();
        let mut ok = true;
        for e in &scn.entries {
            if e.path == old_output || e.path.starts_with(&format!("{}/", old_output)) || e.path == input_dir {
                continue;
            }
            let path = strip(&e.path);
            if moved.iter().any(|m| m.path == path) {
                ok = false;
            }
            moved.push(FsEntry { path, body: e.body.clone() });
        }
        if ok {
            scn.entries = moved;
            for meta in scn.sources.iter_mut() {
                meta.path = strip(&meta.path);
                for r in meta.requires.iter_mut() {
                    *r = strip(r);
                }
            }
            for m in scn.maybe_bad.iter_mut() {
                *m = strip(m);
            }
            scn.opts.input = ".".to_owned();
            scn.opts.output = Some("../dot-out".to_owned());
            if let ConfigSource::Object(_) = scn.opts.config {
            } else if rk.chance(1, 2) {
                scn.opts.input = "./".to_owned();
            }
        }
    }
    // a directory of the input reachable under a second name through a symbolic link (real
    // file system, fault-free projects): its files are sources under both names
    if matches!(backend, Backend::RealFs | Backend::RealLib)
        && !project.input_is_file
        && scn.bad_files.is_empty()
        && scn.faults.is_empty()
        && scn.unwritable.is_empty()
        && scn.maybe_bad.is_empty()
        && separate_output(&scn.opts)
        && rk.chance(1, 4)
    {
        let input_dir = gen::normalize(&project.input);
        let prefix = format!("{}/", input_dir);
        let sub_dirs: BTreeSet<String> = project
            .sources
            .iter()
            .filter_map(|s| s.path.strip_prefix(&prefix))
            .filter_map(|rel| rel.split('/').next().filter(|_| rel.contains('/')).map(str::to_owned))
            .collect();
        let link = gen::join(&input_dir, "zz-alias");
        if let Some(dir) = sub_dirs.iter().next() {
            if !scn.entries.iter().any(|e| e.path == link || e.path.starts_with(&format!("{}/", link))) {
                scn.entries.push(FsEntry {
                    path: link,
                    body: Body::Symlink(dir.clone()),
                });
            }
        }
    }
    scn.trace_logs = !real && rk.chance(1, 10);
    // both default configuration files sit in the working directory although the run has
    // its own configuration (an object, `--config <path>`, `darklua minify`): they must not
    // even be looked at
    if !matches!(scn.opts.config, ConfigSource::Default) && rk.chance(1, 8) {
        for (name, text) in [
            (".darklua.json", "{\"rules\":[\"remove_comments\",\"remove_spaces\"],\"generator\":\"dense\"}"),
            (".darklua.json5", "{ this is not, a configuration"),
        ] {
            if !scn.entries.iter().any(|e| e.path == name) {
                scn.entries.push(FsEntry {
                    path: name.to_owned(),
                    body: Body::Text(text.to_owned()),
                });
            }
        }
    }
    // the other way to process in place: the input directory itself as output location,
    // spelled the same way or not
    if scn.opts.output.is_none() && !project.input_is_file && rk.chance(1, 3) {
        let input = gen::normalize(&scn.opts.input);
        let first = input.split('/').next().unwrap_or("").to_owned();
        scn.opts.output = Some(match rk.below(5) {
            0 => scn.opts.input.clone(),
            1 => input.clone(),
            2 => format!("./{}", input),
            3 => format!("{}/", input),
            _ => format!("{}/../{}", first, input),
        });
    }
    scn
}

/// The way the simulated file system names a path: relative to the simulated working
/// directory when below it, absolute otherwise (`../dot-out/a.lua` is `/sim/dot-out/a.lua`).
fn sim_spelling(path: &str) -> String {
    if !path.starts_with("../") {
        return path.to_owned();
    }
    let mut parts: Vec<&str> = crate::simfs::SIM_CWD.split('/').filter(|c| !c.is_empty()).collect();
    for c in path.split('/') {
        match c {
            "" | "." => {}
            ".." => {
                parts.pop();
            }
            other => parts.push(other),
        }
    }
    format!("/{}", parts.join("/"))
}

/// An output location that is not the input itself (no output, or the input given again
/// as output, is in-place processing).
pub fn separate_output(opts: &crate::model::OptSpec) -> bool {
    match &opts.output {
        None => false,
        Some(output) => gen::normalize(output) != gen::normalize(&opts.input),
    }
}

// ------------------------------------------------------------------ property plumbing

use crate::driver::{run_seed, Property, RunReport};
use crate::model::{ConfigSource, Scenario};
use serde_json::json;

pub struct C11;

pub fn config_variants(text: &str) -> Vec<String> {
    let mut out = Vec::new();
    let value: serde_json::Value = match serde_json::from_str(text) {
        Ok(v) => v,
        Err(_) => return out,
    };
    if let Some(obj) = value.as_object() {
        if let Some(rules) = obj.get("rules").and_then(|r| r.as_array()) {
            if rules.len() > 1 {
                let mut v = value.clone();
                v["rules"] = json!([]);
                out.push(v.to_string());
            }
            for i in 0..rules.len() {
                let mut v = value.clone();
                v["rules"].as_array_mut().unwrap().remove(i);
                out.push(v.to_string());
            }
        } else {
            let mut v = value.clone();
            v["rules"] = json!([]);
            out.push(v.to_string());
        }
        for key in ["generator", "apply_to_files", "skip_files"] {
            if obj.contains_key(key) {
                let mut v = value.clone();
                v.as_object_mut().unwrap().remove(key);
                out.push(v.to_string());
            }
        }
    }
    out
}

pub fn config_path_of(opts: &crate::model::OptSpec, entries: &[FsEntry]) -> Option<String> {
    match &opts.config {
        ConfigSource::Object(_) => None,
        ConfigSource::At(path) => Some(path.clone()),
        ConfigSource::Default => entries
            .iter()
            .find(|e| e.path == ".darklua.json" || e.path == ".darklua.json5")
            .map(|e| e.path.clone()),
    }
}

impl C11 {
    fn candidates(&self, scn: &C11Scenario) -> Vec<C11Scenario> {
        let mut out: Vec<C11Scenario> = Vec::new();
        // drop faults
        for i in 0..scn.faults.len() {
            let mut c = scn.clone();
            c.faults.remove(i);
            c.transient = c.faults.iter().any(|f| f.nth.is_some());
            out.push(c);
        }
        // drop entries nobody requires
        let config_path = config_path_of(&scn.opts, &scn.entries);
        let input_norm = gen::normalize(&scn.opts.input);
        for i in 0..scn.entries.len() {
            let path = scn.entries[i].path.clone();
            if Some(&path) == config_path.as_ref() || path == input_norm {
                continue;
            }
            if scn.sources.iter().any(|s| s.requires.contains(&path)) {
                continue;
            }
            // keep directories that still have children
            if scn.entries[i].body == Body::Dir
                && scn
                    .entries
                    .iter()
                    .any(|e| e.path.starts_with(&format!("{}/", path)))
            {
                continue;
            }
            let mut c = scn.clone();
            c.entries.remove(i);
            c.sources.retain(|s| s.path != path);
            c.bad_files.retain(|p| *p != path);
            c.unwritable.retain(|p| *p != path);
            out.push(c);
        }
        // simplify the configuration
        match &scn.opts.config {
            ConfigSource::Object(text) => {
                for variant in config_variants(text) {
                    let mut c = scn.clone();
                    c.opts.config = ConfigSource::Object(variant);
                    out.push(c);
                }
            }
            _ => {
                if let Some(path) = &config_path {
                    if let Some(Body::Text(text)) =
                        scn.entries.iter().find(|e| e.path == *path).map(|e| &e.body)
                    {
                        for variant in config_variants(text) {
                            let mut c = scn.clone();
                            for e in c.entries.iter_mut() {
                                if e.path == *path {
                                    e.body = Body::Text(variant.clone());
                                }
                            }
                            out.push(c);
                        }
                    }
                }
            }
        }
        // trivial bodies for healthy leaf sources
        for i in 0..scn.entries.len() {
            let path = &scn.entries[i].path;
            if !gen::is_lua(path) || scn.bad_files.contains(path) {
                continue;
            }
            let has_requires = scn
                .sources
                .iter()
                .any(|s| s.path == *path && !s.requires.is_empty());
            if has_requires {
                continue;
            }
            let trivial = Body::Text("return {}\n".to_owned());
            if scn.entries[i].body != trivial && scn.entries[i].body != Body::Dir {
                let mut c = scn.clone();
                c.entries[i].body = trivial;
                out.push(c);
            }
        }
        if scn.opts.fail_fast {
            let mut c = scn.clone();
            c.opts.fail_fast = false;
            out.push(c);
        }
        if scn.opts.generator_override.is_some() {
            let mut c = scn.clone();
            c.opts.generator_override = None;
            out.push(c);
        }
        if (scn.walk_seed, scn.hash_seed, scn.alt_walk_seed, scn.alt_hash_seed) != (0, 0, 1, 1) {
            let mut c = scn.clone();
            c.walk_seed = 0;
            c.hash_seed = 0;
            c.alt_walk_seed = 1;
            c.alt_hash_seed = 1;
            out.push(c);
        }
        out
    }
}

impl Property for C11 {
    fn id(&self) -> &'static str {
        "C11"
    }
    fn level(&self) -> &'static str {
        "fault_enumeration"
    }
    fn runs_for(&self, tier: &str) -> usize {
        if tier == "thorough" {
            1_200_000
        } else {
            30_000
        }
    }
    fn run(&self, seed: u64, index: usize, tier: &str) -> Result<RunReport, String> {
        let run_seed = run_seed(seed, "C11", tier, index);
        // the first indices of every batch are the exhaustive fault-placement stratum:
        // quick = fault-free runs and every single placement, thorough = also all pairs
        let singles_only = tier != "thorough";
        let stratum = if singles_only {
            crate::c11enum::count_singles()
        } else {
            crate::c11enum::count()
        };
        let enumerated = if index < stratum {
            crate::c11enum::enumerated(index, singles_only)
        } else {
            None
        };
        let is_enumerated = enumerated.is_some();
        let scn = match enumerated {
            Some(scn) => scn,
            None => generate(run_seed),
        };
        let mut stats = RunStats::default();
        let violations = check(&scn, &mut stats)?;
        let mut counters: BTreeMap<String, u64> = BTreeMap::new();
        for (k, v) in &stats.faults_fired {
            counters.insert(format!("fault_fired:{}", k), *v);
        }
        for (k, v) in &stats.probes {
            counters.insert(format!("probe:{}", k), *v);
        }
        counters.insert(format!("backend:{:?}", scn.backend), 1);
        if is_enumerated {
            counters.insert("enumerated_fault_placements".to_owned(), 1);
        }
        counters.insert("files_total".to_owned(), stats.files as u64);
        counters.insert("healthy_files".to_owned(), stats.healthy_ratio_num);
        counters.insert("expected_files".to_owned(), stats.healthy_ratio_den);
        counters.insert(
            format!("orders_compared:{}", stats.orders_compared),
            1,
        );
        if !scn.bad_files.is_empty() {
            counters.insert("runs_with_bad_files".to_owned(), 1);
        }
        if !scn.unwritable.is_empty() {
            counters.insert("runs_with_unwritable_destination".to_owned(), 1);
        }
        if scn.opts.fail_fast {
            counters.insert("runs_fail_fast".to_owned(), 1);
        }
        if scn.opts.output.is_some() && !separate_output(&scn.opts) {
            counters.insert("runs_in_place_output_is_input".to_owned(), 1);
        }
        if !separate_output(&scn.opts) {
            counters.insert("runs_in_place".to_owned(), 1);
        }
        counters.insert(
            "healthy_projects_failing_in_reference".to_owned(),
            stats.unexpected_reference_errors,
        );
        counters.insert("files_reported_more_than_once".to_owned(), stats.duplicate_reports);
        counters.insert("failing_sources_named_in_report".to_owned(), stats.sources_named);
        counters.insert("reruns_after_output_wipe".to_owned(), stats.wiped_reruns);
        counters.insert("success_counts_checked".to_owned(), stats.success_counts_checked);
        counters.insert("outputs_written_more_than_once".to_owned(), stats.rewritten_outputs);
        if scn.keep_bad_in_reference {
            counters.insert("convert_require_projects".to_owned(), 1);
        }
        if let Some(mode) = scn
            .entries
            .iter()
            .filter_map(|e| match &e.body {
                Body::Text(t) if t.contains("\"require_mode\"") => Some(t.clone()),
                _ => None,
            })
            .next()
            .or_else(|| match &scn.opts.config {
                crate::model::ConfigSource::Object(t) if t.contains("\"require_mode\"") => Some(t.clone()),
                _ => None,
            })
        {
            let key = if mode.contains("\"luau\"") { "bundle:luau" } else { "bundle:path" };
            counters.insert(key.to_owned(), 1);
        }
        if stats.stub_validated {
            counters.insert("stub_validated_against_real_fs".to_owned(), 1);
        }
        if let Some(msg) = &stats.stub_disagreement {
            if violations.is_empty() {
                return Err(format!("stub validation: {} (run seed {})", msg, run_seed));
            }
        }
        Ok(RunReport {
            stats: json!({
                "files": stats.files,
                "executions": stats.executions,
                "orders_compared": stats.orders_compared,
                "faults_fired": stats.faults_fired,
            }),
            io_signature: mix(stats.io_signature, scn.entries.len() as u64),
            nontrivial: stats.nontrivial,
            executions: stats.executions,
            counters,
            violations,
            scenario: Scenario::C11(scn),
        })
    }
    fn recheck(&self, scenario: &Scenario) -> Result<Vec<Violation>, String> {
        match scenario {
            Scenario::C11(scn) => {
                let mut stats = RunStats::default();
                check(scn, &mut stats)
            }
            _ => Err("not a C11 scenario".to_owned()),
        }
    }
    fn shrink_candidates(&self, scenario: &Scenario) -> Vec<Scenario> {
        match scenario {
            Scenario::C11(scn) => self.candidates(scn).into_iter().map(Scenario::C11).collect(),
            _ => Vec::new(),
        }
    }
    fn kinds(&self, scenario: &Scenario) -> Vec<String> {
        match scenario {
            Scenario::C11(scn) => {
                let mut kinds: Vec<String> =
                    scn.faults.iter().map(|f| format!("{:?}", f.kind)).collect();
                if !scn.bad_files.is_empty() {
                    kinds.push("BadFile".to_owned());
                }
                if !scn.unwritable.is_empty() {
                    kinds.push("Unwritable".to_owned());
                }
                kinds.sort();
                kinds
            }
            _ => Vec::new(),
        }
    }
    fn rule_text(&self) -> String {
        "The first indices enumerate completely every single fault placement (and, thorough, every pair) over three fixed projects. Each further simulated run: a PRNG-generated project (1-8 Lua sources in nested directories with awkward names, non-Lua files, optional bundling DAG (path or luau mode) with data files and .luaurc aliases, or convert_require through a Rojo sourcemap or to nested path aliases, requires with and without extension, through a `sources` entry or through configuration aliases, a module above the working directory, optional top-level file filters), configuration (default/empty/random rule lists over all rules, 3 generators), invocation shape (file|dir input in several spellings incl. paths that climb above the working directory; no|file|dir|new output or the input itself as output; fail-fast) and fault plan (content faults, persistent or n-th-call read/write faults, structural EISDIR/ENOTDIR) is executed on SimFs (or the real Memory arm, or the real file system through the real binary or the library) under a chosen enumeration order and std hash seed, compared with a fault-free reference run without the bad files, re-executed under another order+hash seed, and run a second time over its own result. evaluations = darklua process() executions. A run is non-trivial when it has >= 2 sources and (>= 1 injected fault fired or >= 2 distinct orders were compared); distinct = distinct normalised op-log (I/O signature) among non-trivial runs.".to_owned()
    }
    fn assumptions(&self) -> Vec<String> {
        vec![
            "A clean batch is evidence over the sampled scenarios, not proof.".to_owned(),
            "SimFs models the FileSystem arm of resources.rs call by call; faults only a kernel can produce (EIO, ENOSPC mid-file) reach darklua solely through SimFs.".to_owned(),
            "The semantic correctness of the rules is not judged (C01-C09, C12-C18 are not claimed); outputs are compared with a reference run of the same code.".to_owned(),
            "Top-level apply_to_files/skip_files use 8 glob patterns of the `**` / `*` / literal subset, evaluated by the harness itself; whether darklua's glob engine is right on other patterns is C20, not claimed.".to_owned(),
        ]
    }
    fn components(&self) -> serde_json::Value {
        json!({
            "real": ["WorkerTree", "Worker", "WorkCache", "Options", "Configuration (json5)", "all rules", "bundler", "path locators", "parser", "3 generators", "DarkluaError", "Source::Memory arm (1/6 of runs)"],
            "stub": ["Source::FileSystem arm (std::fs) -> SimFs via hook H1"],
        })
    }
    fn extra_evidence(&self) -> serde_json::Value {
        json!({
            "exhaustive_stratum": {
                "what": "3 fixed projects x {output, in place} x {fail-fast off, on}: the fault-free run, every single fault placement (target file x applicable fault kind), and (thorough) every pair of placements on two different targets; enumerated completely at the start of every batch",
                "fault_free_and_single_placements": crate::c11enum::count_singles(),
                "including_pairs": crate::c11enum::count(),
            }
        })
    }
    fn sample(&self, scenario: &Scenario) -> serde_json::Value {
        match scenario {
            Scenario::C11(scn) => json!({
                "backend": format!("{:?}", scn.backend),
                "opts": scn.opts,
                "paths": scn.entries.iter().map(|e| e.path.clone()).collect::<Vec<_>>(),
                "bad_files": scn.bad_files,
                "unwritable": scn.unwritable,
                "faults": scn.faults,
                "walk_seed": scn.walk_seed,
                "hash_seed": scn.hash_seed,
            }),
            _ => json!(null),
        }
    }
}
