//! C10 layer LW: the real `darklua process --watch` binary on a tmpfs scratch directory,
//! real notify + debouncer, real time (DESIGN.md §4.7). It covers what L2 cannot:
//! `FileWatcher::start` (which paths get watched, the main-thread Watch/Unwatch loop, the
//! real notify stack). Real time cannot be made deterministic, so this layer
//! * waits generously and polls for quiescence instead of assuming a latency,
//! * only reports a mismatch that it reproduced a second time with doubled waits,
//! * is part of the thorough tier only.
//! The oracle is the usual one: after every settled step the output tree must equal the
//! tree a fresh `darklua process` produces from a copy of the current inputs.

use std::{
    fs,
    io::Read,
    path::{Path, PathBuf},
    process::{Child, Command, Stdio},
    time::{Duration, Instant},
};

use crate::{
    c10::{output_dir, RunStats},
    gen,
    l2::SaveStyle,
    model::{Body, C10Scenario, ConfigSource, FsEntry, Op, Violation},
    simfs::Snapshot,
    tierb,
};

const P: &str = "C10";

fn cli_args(scn: &C10Scenario, watch: bool) -> Option<Vec<String>> {
    let mut args = vec![
        "process".to_owned(),
        scn.opts.input.clone(),
        scn.opts.output.clone()?,
    ];
    match &scn.opts.config {
        ConfigSource::At(path) => {
            args.push("--config".to_owned());
            args.push(path.clone());
        }
        ConfigSource::Default => {}
        ConfigSource::Object(_) => return None,
    }
    if watch {
        args.push("--watch".to_owned());
    }
    Some(args)
}

struct Watcher {
    child: Child,
}

impl Drop for Watcher {
    fn drop(&mut self) {
        let _ = self.child.kill();
        let _ = self.child.wait();
    }
}

fn region_snapshot(root: &Path, region: &str) -> Snapshot {
    tierb::snapshot(root)
        .into_iter()
        .filter(|(p, c)| {
            (p == region && c.is_some()) || p.starts_with(&format!("{}/", region))
        })
        .collect()
}

/// Wait until the output region has not changed for `quiet` (at least `min` after the
/// operation, at most `max`).
fn settle(root: &Path, region: &str, min: Duration, quiet: Duration, max: Duration) -> Snapshot {
    let started = Instant::now();
    std::thread::sleep(min);
    let mut last = region_snapshot(root, region);
    let mut last_change = Instant::now();
    loop {
        std::thread::sleep(Duration::from_millis(100));
        let now = region_snapshot(root, region);
        if now != last {
            last = now;
            last_change = Instant::now();
        }
        if last_change.elapsed() >= quiet || started.elapsed() >= max {
            return last;
        }
    }
}

fn apply_real(root: &Path, op: &Op, style: SaveStyle) {
    match op {
        Op::Edit { path, body } | Op::Add { path, body } => {
            let bytes = body.bytes().unwrap_or_default();
            let p = root.join(path);
            if let Some(parent) = p.parent() {
                let _ = fs::create_dir_all(parent);
            }
            if !p.exists() {
                let _ = fs::write(&p, bytes);
                return;
            }
            match style {
                SaveStyle::InPlace => {
                    let _ = fs::write(&p, bytes);
                }
                SaveStyle::Atomic => {
                    let tmp = root.join(format!("{}.tmp~", path));
                    let _ = fs::write(&tmp, bytes);
                    let _ = fs::rename(&tmp, &p);
                }
                SaveStyle::DeleteRecreate => {
                    let _ = fs::remove_file(&p);
                    let _ = fs::write(&p, bytes);
                }
            }
        }
        Op::Touch { path } => {
            let p = root.join(path);
            if let Ok(bytes) = fs::read(&p) {
                let _ = fs::write(&p, bytes);
            }
        }
        Op::TamperOutput { output, body, source } => {
            let o = root.join(output);
            match body.as_ref().and_then(|b| b.bytes()) {
                Some(bytes) => {
                    let _ = fs::write(&o, bytes);
                }
                None => {
                    let _ = fs::remove_file(&o);
                }
            }
            let p = root.join(source);
            if let Ok(bytes) = fs::read(&p) {
                let _ = fs::write(&p, bytes);
            }
        }
        Op::ForeignDir { path } => {
            let _ = fs::create_dir_all(root.join(path));
        }
        Op::RemoveFile { path } => {
            let _ = fs::remove_file(root.join(path));
        }
        Op::RemoveDir { path } => {
            let _ = fs::remove_dir_all(root.join(path));
        }
        Op::Rename { from, to } => {
            if let Some(parent) = root.join(to).parent() {
                let _ = fs::create_dir_all(parent);
            }
            let _ = fs::rename(root.join(from), root.join(to));
        }
        _ => {}
    }
}

/// A fresh run over a copy of the current inputs, with the output location reset to the
/// foreign content that existed before the first pass.
fn fresh_tree(
    root: &Path,
    scn: &C10Scenario,
    region: &str,
    foreign: &[FsEntry],
) -> Result<Option<(Snapshot, Vec<String>)>, String> {
    let scratch = tierb::Scratch::new()?;
    let current = tierb::snapshot(root);
    let mut entries: Vec<FsEntry> = Vec::new();
    for (path, content) in &current {
        if path == region || path.starts_with(&format!("{}/", region)) {
            continue;
        }
        entries.push(FsEntry {
            path: path.clone(),
            body: match content {
                Some(bytes) => Body::from_bytes(bytes),
                None => Body::Dir,
            },
        });
    }
    entries.extend(foreign.iter().cloned());
    tierb::materialize(&scratch.root, &entries, 0)?;
    let args = cli_args(scn, false).ok_or("not expressible on the command line")?;
    let run = tierb::run_binary(&scratch.root, &args, 0)?;
    match &run.outcome {
        crate::exec::Outcome::Panic(msg) => Err(format!("fresh run crashed: {}", msg)),
        // the fresh run fails as a whole (invalid configuration): nothing to compare with
        crate::exec::Outcome::BatchErr(_) => Ok(None),
        crate::exec::Outcome::Done { errors, .. } => {
            // destinations of sources that currently fail are not compared (the watcher
            // may keep their last good output, DESIGN.md §4.3)
            let input = gen::normalize(&scn.opts.input);
            let mut relaxed = Vec::new();
            for text in errors {
                let mut best: Option<(usize, String)> = None;
                for path in current.keys().filter(|p| gen::is_lua(p)) {
                    if let Some(pos) = crate::c11::mention(text, path) {
                        if best.as_ref().map(|(b, _)| pos < *b).unwrap_or(true) {
                            best = Some((pos, path.clone()));
                        }
                    }
                }
                if let Some((_, source)) = best {
                    if let Some(rel) = source.strip_prefix(&format!("{}/", input)) {
                        relaxed.push(gen::join(region, rel));
                    } else if source == input {
                        relaxed.push("*".to_owned());
                    }
                }
            }
            Ok(Some((region_snapshot(&scratch.root, region), relaxed)))
        }
    }
}

fn diff_text(a: &Snapshot, b: &Snapshot) -> String {
    let mut lines = Vec::new();
    for (p, c) in a {
        match b.get(p) {
            None => lines.push(format!("only under --watch: `{}`", p)),
            Some(o) if o != c => lines.push(format!(
                "`{}`: watch {:?} vs fresh {:?}",
                p,
                c.as_ref().map(|x| String::from_utf8_lossy(x).chars().take(80).collect::<String>()),
                o.as_ref().map(|x| String::from_utf8_lossy(x).chars().take(80).collect::<String>())
            )),
            _ => {}
        }
    }
    for p in b.keys() {
        if !a.contains_key(p) {
            lines.push(format!("only in the fresh run: `{}`", p));
        }
    }
    lines.join("\n ")
}

fn files_only(s: &Snapshot) -> Snapshot {
    // empty directories are compared by L1/L2; here timing-insensitive content is compared
    s.iter()
        .filter(|(_, c)| c.is_some())
        .map(|(p, c)| (p.clone(), c.clone()))
        .collect()
}

/// One attempt; `scale` multiplies every wait.
fn attempt(scn: &C10Scenario, scale: u32, stats: &mut RunStats) -> Result<Option<String>, String> {
    let binary = tierb::binary_path().ok_or("VERIF_DARKLUA_BIN not set")?;
    let args = cli_args(scn, true).ok_or("not expressible on the command line")?;
    let scratch = tierb::Scratch::new()?;
    tierb::materialize(&scratch.root, &scn.entries, scn.walk_seed)?;
    let region = output_dir(&scn.opts);
    let foreign: Vec<FsEntry> = scn
        .entries
        .iter()
        .filter(|e| e.path == region || e.path.starts_with(&format!("{}/", region)))
        .cloned()
        .collect();
    let child = Command::new(binary)
        .args(&args)
        .current_dir(&scratch.root)
        .env_remove("RUST_LOG")
        .stdin(Stdio::null())
        .stdout(Stdio::null())
        .stderr(Stdio::piped())
        .spawn()
        .map_err(|e| format!("cannot spawn darklua --watch: {}", e))?;
    let mut watcher = Watcher { child };
    let ms = |n: u64| Duration::from_millis(n * scale as u64);
    // first run + watch set-up
    settle(&scratch.root, &region, ms(1200), ms(600), ms(10_000));
    let mut step = 0usize;
    for (op_index, op) in scn.ops.iter().enumerate() {
        match op {
            Op::Pass | Op::Wait { .. } | Op::Faults { .. } | Op::ConfigObject { .. } | Op::FailFastNext | Op::GeneratorOverride { .. } => continue,
            _ => {}
        }
        // a non-in-place save of a file that darklua may watch twice yields no event at all
        // (DESIGN.md §4.5): only plain saves here, except for files nobody requires
        let style = match op {
            Op::Edit { path, .. } => {
                let name = gen::file_name(path);
                let required = scn.entries.iter().any(|e| {
                    matches!(&e.body, Body::Text(t) if t.contains(&format!("{}\")", name)))
                }) || !gen::is_lua(path);
                // only files below the (recursively watched) input directory are covered
                // by a directory watch; anything else hangs on an inode watch that a
                // non-in-place save kills (a lost notification, out of scope)
                let input = gen::normalize(&scn.opts.input);
                let under_input_dir = path.starts_with(&format!("{}/", input));
                if required || !under_input_dir {
                    SaveStyle::InPlace
                } else {
                    crate::l2::style_for(scn.seed, op_index)
                }
            }
            _ => SaveStyle::InPlace,
        };
        apply_real(&scratch.root, op, style);
        *stats.ops.entry(format!("real:{}", crate::c10::op_kind(op))).or_insert(0) += 1;
        let watched = settle(&scratch.root, &region, ms(1300), ms(700), ms(12_000));
        stats.passes += 1;
        if let Ok(Some(status)) = watcher.child.try_wait() {
            let mut err = String::new();
            if let Some(mut e) = watcher.child.stderr.take() {
                let _ = e.read_to_string(&mut err);
            }
            return Ok(Some(format!(
                "step {} ({}): darklua --watch exited with {:?}: {}",
                step,
                crate::c10::op_kind(op),
                status.code(),
                err.lines().take(5).collect::<Vec<_>>().join(" | ")
            )));
        }
        let (fresh, relaxed) = match fresh_tree(&scratch.root, scn, &region, &foreign)? {
            Some(result) => result,
            None => {
                step += 1;
                continue;
            }
        };
        stats.fresh_runs += 1;
        stats.executions += 1;
        if relaxed.iter().any(|r| r == "*") {
            step += 1;
            continue;
        }
        let strip = |s: &Snapshot| -> Snapshot {
            files_only(s)
                .into_iter()
                .filter(|(p, _)| !relaxed.contains(p))
                .collect()
        };
        let fresh = strip(&fresh);
        if strip(&watched) != fresh {
            // give it one more long look before calling it a mismatch
            let again = strip(&settle(&scratch.root, &region, ms(1500), ms(1000), ms(8_000)));
            if again != fresh {
                return Ok(Some(format!(
                    "step {} ({} {:?}, save style {:?}): the output under --watch differs from a fresh run:\n {}",
                    step,
                    crate::c10::op_kind(op),
                    op_paths(op),
                    style,
                    diff_text(&again, &fresh)
                )));
            }
        }
        step += 1;
    }
    Ok(None)
}

fn op_paths(op: &Op) -> Vec<String> {
    match op {
        Op::Edit { path, .. } | Op::Add { path, .. } | Op::Touch { path } => vec![path.clone()],
        Op::RemoveFile { path } | Op::RemoveDir { path } => vec![path.clone()],
        Op::Rename { from, to } => vec![from.clone(), to.clone()],
        Op::TamperOutput { source, .. } => vec![source.clone()],
        _ => Vec::new(),
    }
}

pub fn run_lw(scn: &C10Scenario, stats: &mut RunStats) -> Vec<Violation> {
    let mut violations = Vec::new();
    match attempt(scn, 1, stats) {
        Err(err) => violations.push(Violation::new(P, "harness", "lw", err)),
        Ok(None) => {}
        Ok(Some(first)) => {
            // real time: only a mismatch that shows again with doubled waits is reported
            match attempt(scn, 2, stats).and_then(|second| match second {
                // ... and a third time with four times the waits
                Some(_) => attempt(scn, 4, stats),
                None => Ok(None),
            }) {
                Ok(Some(second)) => violations.push(Violation::new(
                    P,
                    "equal",
                    "real-watch-differs",
                    format!("{}\n(reproduced with doubled and with fourfold waits: {})", first, second.lines().next().unwrap_or("")),
                )),
                Ok(None) => {
                    *stats.ops.entry("real:unconfirmed-mismatch".to_owned()).or_insert(0) += 1;
                }
                Err(err) => violations.push(Violation::new(P, "harness", "lw", err)),
            }
        }
    }
    let _ = PathBuf::new();
    violations
}
