//! Scenario generation shared by C10 and C11: project trees, configurations, invocation
//! shapes. Everything is drawn from `Rng` streams derived from the run seed.

use crate::{
    corpus,
    model::{Backend, Body, ConfigSource, FsEntry, OptSpec, SourceMeta},
    rng::Rng,
};

pub const RULE_POOL: &[&str] = &[
    "\"remove_spaces\"",
    "\"remove_comments\"",
    "{\"rule\":\"remove_comments\",\"except\":[\"^--!\"]}",
    "\"compute_expression\"",
    "\"remove_unused_if_branch\"",
    "\"remove_unused_while\"",
    "\"filter_after_early_return\"",
    "\"remove_empty_do\"",
    "\"remove_unused_variable\"",
    "\"remove_method_definition\"",
    "\"convert_index_to_field\"",
    "\"remove_nil_declaration\"",
    "\"rename_variables\"",
    "{\"rule\":\"rename_variables\",\"include_functions\":true}",
    "{\"rule\":\"rename_variables\",\"globals\":[\"$default\",\"mark\",\"use\"]}",
    "\"remove_function_call_parens\"",
    "\"remove_types\"",
    "\"remove_compound_assignment\"",
    "\"remove_continue\"",
    "\"remove_if_expression\"",
    "\"remove_interpolated_string\"",
    "\"remove_floor_division\"",
    "\"convert_luau_number\"",
    "\"remove_assertions\"",
    "{\"rule\":\"remove_assertions\",\"preserve_arguments_side_effects\":false}",
    "\"remove_debug_profiling\"",
    "{\"rule\":\"remove_debug_profiling\",\"preserve_arguments_side_effects\":false}",
    "\"group_local_assignment\"",
    "\"convert_local_function_to_assign\"",
    "\"convert_function_to_assignment\"",
    "\"remove_method_call\"",
    "\"convert_square_root_call\"",
    "{\"rule\":\"inject_global_value\",\"identifier\":\"DEBUG\",\"value\":true}",
    "{\"rule\":\"inject_global_value\",\"identifier\":\"DEBUG\",\"value\":\"text\"}",
    "{\"rule\":\"inject_global_value\",\"identifier\":\"VERSION\",\"value\":{\"major\":1,\"tags\":[\"a\",\"b\"],\"nested\":{\"x\":1.5,\"y\":null}}}",
    "{\"rule\":\"rename_variables\",\"include_functions\":true,\"globals\":[\"$default\",\"$roblox\"]}",
    "{\"rule\":\"remove_comments\",\"except\":[\"^--!\",\"TODO\"]}",
    "{\"rule\":\"append_text_comment\",\"text\":\"generated file\"}",
    "{\"rule\":\"append_text_comment\",\"text\":\"two\\nlines\",\"location\":\"end\"}",
    "\"make_assignment_local\"",
    "\"remove_attribute\"",
];

pub const GENERATORS: &[&str] = &[
    "\"retain_lines\"",
    "\"dense\"",
    "\"readable\"",
    "{\"name\":\"dense\",\"column_span\":20}",
    "{\"name\":\"readable\",\"column_span\":40}",
    "{\"name\":\"dense\",\"column_span\":1}",
];

#[derive(Clone, Debug)]
pub struct ConfigParts {
    /// None = key absent (default rules)
    pub rules: Option<Vec<String>>,
    pub generator: Option<String>,
    /// Some("path") | Some("luau")
    pub bundle: Option<String>,
    pub bundle_excludes: Vec<String>,
    /// path mode only: declare the source `here` = `.` (the project location: the
    /// directory of the configuration file, or of the processed file when the
    /// configuration is given as an object)
    pub bundle_sources: bool,
    /// luau mode only: aliases declared in the configuration (name with `@`, target relative
    /// to the working directory; `{CFGREL}` is put in front). A `.luaurc` alias of the same
    /// name wins over them.
    pub bundle_luau_aliases: Vec<(String, String)>,
    /// the name of the table the bundled modules are stored in (None = default)
    pub bundle_modules_identifier: Option<String>,
    /// `use_luau_configuration: false` on the require mode: `.luaurc` files are ignored
    pub bundle_no_luaurc: bool,
    pub apply_to_files: Vec<String>,
    pub skip_files: Vec<String>,
    /// Some(path relative to the configuration file): `convert_require` from path requires
    /// to Roblox instance paths through this Rojo sourcemap is the first rule
    pub convert_sourcemap: Option<String>,
    /// indexing style of the Roblox target of `convert_require` (None = default)
    pub convert_indexing: Option<String>,
    /// Some(input directory): `convert_require` rewrites path requires into alias requires
    /// of a `path` target whose aliases are nested (`@root` = input, `@sub` = input/sub,
    /// `@deep` = input/sub/deep); `{CFGREL}` stands for the way from the configuration
    /// file's directory to the working directory and is filled in by `gen_invocation`
    pub convert_path_aliases: Option<String>,
    /// `use_luau_configuration: false` on the current mode of `convert_require`
    pub convert_no_luaurc: bool,
}

impl ConfigParts {
    pub fn to_text(&self) -> String {
        let mut fields: Vec<String> = Vec::new();
        if let Some(input) = &self.convert_path_aliases {
            let mut rules = vec![format!(
                "{{\"rule\":\"convert_require\",\"current\":\"path\",\"target\":{{\"name\":\"path\",\"sources\":{{\"@root\":\"{{CFGREL}}{0}\",\"@sub\":\"{{CFGREL}}{0}/sub\",\"@deep\":\"{{CFGREL}}{0}/sub/deep\",\"@other\":\"{{CFGREL}}{0}/other dir\"}}}}}}",
                input
            )];
            rules.extend(self.rules.clone().unwrap_or_default());
            fields.push(format!("\"rules\":[{}]", rules.join(",")));
        } else if let Some(sourcemap) = &self.convert_sourcemap {
            let indexing = match &self.convert_indexing {
                Some(style) => format!(",\"indexing_style\":\"{}\"", style),
                None => String::new(),
            };
            let current = if self.convert_no_luaurc {
                "{\"name\":\"path\",\"use_luau_configuration\":false}"
            } else {
                "\"path\""
            };
            let mut rules = vec![format!(
                "{{\"rule\":\"convert_require\",\"current\":{},\"target\":{{\"name\":\"roblox\",\"rojo_sourcemap\":\"{}\"{}}}}}",
                current, sourcemap, indexing
            )];
            rules.extend(self.rules.clone().unwrap_or_default());
            fields.push(format!("\"rules\":[{}]", rules.join(",")));
        } else if let Some(rules) = &self.rules {
            fields.push(format!("\"rules\":[{}]", rules.join(",")));
        }
        if let Some(generator) = &self.generator {
            fields.push(format!("\"generator\":{}", generator));
        }
        if let Some(mode) = &self.bundle {
            let mut bundle = if self.bundle_sources && mode == "path" {
                "\"require_mode\":{\"name\":\"path\",\"sources\":{\"here\":\".\"}}".to_owned()
            } else if !self.bundle_luau_aliases.is_empty() && mode == "luau" {
                format!(
                    "\"require_mode\":{{\"name\":\"luau\",\"aliases\":{{{}}}}}",
                    self.bundle_luau_aliases
                        .iter()
                        .map(|(name, target)| format!("\"{}\":\"{{CFGREL}}{}\"", name, target))
                        .collect::<Vec<_>>()
                        .join(",")
                )
            } else if self.bundle_no_luaurc {
                format!("\"require_mode\":{{\"name\":\"{}\",\"use_luau_configuration\":false}}", mode)
            } else {
                format!("\"require_mode\":\"{}\"", mode)
            };
            if let Some(identifier) = &self.bundle_modules_identifier {
                bundle.push_str(&format!(",\"modules_identifier\":\"{}\"", identifier));
            }
            if !self.bundle_excludes.is_empty() {
                bundle.push_str(&format!(
                    ",\"excludes\":[{}]",
                    self.bundle_excludes
                        .iter()
                        .map(|e| format!("\"{}\"", e))
                        .collect::<Vec<_>>()
                        .join(",")
                ));
            }
            fields.push(format!("\"bundle\":{{{}}}", bundle));
        }
        if !self.apply_to_files.is_empty() {
            fields.push(format!(
                "\"apply_to_files\":[{}]",
                self.apply_to_files
                    .iter()
                    .map(|e| format!("\"{}\"", e))
                    .collect::<Vec<_>>()
                    .join(",")
            ));
        }
        if !self.skip_files.is_empty() {
            fields.push(format!(
                "\"skip_files\":[{}]",
                self.skip_files
                    .iter()
                    .map(|e| format!("\"{}\"", e))
                    .collect::<Vec<_>>()
                    .join(",")
            ));
        }
        format!("{{{}}}", fields.join(","))
    }
}

pub fn gen_rules(rng: &mut Rng) -> Option<Vec<String>> {
    match rng.below(10) {
        0..=2 => None,
        3 => Some(Vec::new()),
        _ => {
            let n = rng.range(1, 6);
            Some((0..n).map(|_| (*rng.pick(RULE_POOL)).to_owned()).collect())
        }
    }
}

pub fn gen_config_parts(rng: &mut Rng, bundle: Option<&str>) -> ConfigParts {
    ConfigParts {
        rules: gen_rules(rng),
        generator: if rng.chance(1, 3) {
            None
        } else {
            Some((*rng.pick(GENERATORS)).to_owned())
        },
        bundle: bundle.map(str::to_owned),
        bundle_excludes: Vec::new(),
        bundle_sources: false,
        bundle_luau_aliases: Vec::new(),
        bundle_modules_identifier: None,
        bundle_no_luaurc: false,
        apply_to_files: Vec::new(),
        skip_files: Vec::new(),
        convert_sourcemap: None,
        convert_indexing: None,
        convert_path_aliases: None,
        convert_no_luaurc: false,
    }
}

/// A Rojo sourcemap listing every given Lua file as a ModuleScript in a tree of Folders;
/// file paths are written relative to the sourcemap's own directory.
pub fn render_sourcemap(paths: &[String], sourcemap_path: &str, root_name: &str) -> String {
    #[derive(Default)]
    struct Dir {
        dirs: std::collections::BTreeMap<String, Dir>,
        files: Vec<(String, String)>,
    }
    let mut root = Dir::default();
    let ups = parent(sourcemap_path).split('/').filter(|c| !c.is_empty()).count();
    let prefix = "../".repeat(ups);
    for path in paths {
        let mut dir = &mut root;
        let parts: Vec<&str> = path.split('/').collect();
        for part in &parts[..parts.len() - 1] {
            dir = dir.dirs.entry((*part).to_owned()).or_default();
        }
        let name = parts[parts.len() - 1];
        let stem = match name.rfind('.') {
            Some(i) if i > 0 => &name[..i],
            _ => name,
        };
        dir.files.push((stem.to_owned(), format!("{}{}", prefix, path)));
    }
    fn quote(s: &str) -> String {
        serde_json::to_string(s).unwrap_or_default()
    }
    fn render(name: &str, dir: &Dir) -> String {
        let mut children: Vec<String> = Vec::new();
        for (n, d) in &dir.dirs {
            children.push(render(n, d));
        }
        for (stem, file) in &dir.files {
            children.push(format!(
                "{{\"name\":{},\"className\":\"ModuleScript\",\"filePaths\":[{}]}}",
                quote(stem),
                quote(file)
            ));
        }
        format!(
            "{{\"name\":{},\"className\":\"Folder\",\"children\":[{}]}}",
            quote(name),
            children.join(",")
        )
    }
    render(root_name, &root)
}

pub const INPUT_DIRS: &[&str] = &["src", "in", "proj/src", "my src", "a.b", ".lune"];
pub const SUB_DIRS: &[&str] = &[
    "", "", "sub", "sub/deep", "other dir", "dots.v1.2", "ünï", "..hidden", "sub/...",
];
pub const STEMS: &[&str] = &[
    "a", "b", "c", "main", "init", "mod one", "x.y", "été", "util", "index",
];
pub const EXTS: &[&str] = &["lua", "luau", "lua"];

pub fn join(a: &str, b: &str) -> String {
    if a.is_empty() {
        b.to_owned()
    } else if b.is_empty() {
        a.to_owned()
    } else {
        format!("{}/{}", a, b)
    }
}

pub fn parent(path: &str) -> &str {
    match path.rfind('/') {
        Some(i) => &path[..i],
        None => "",
    }
}

pub fn file_name(path: &str) -> &str {
    match path.rfind('/') {
        Some(i) => &path[i + 1..],
        None => path,
    }
}

pub fn is_lua(path: &str) -> bool {
    let name = file_name(path);
    match name.rfind('.') {
        Some(i) if i > 0 => matches!(&name[i + 1..], "lua" | "luau"),
        _ => false,
    }
}

/// `init.lua` / `init.luau`: the file that stands for its folder.
pub fn is_module_folder_file(path: &str) -> bool {
    matches!(file_name(path), "init.lua" | "init.luau")
}

pub fn has_extension(path: &str) -> bool {
    let name = file_name(path);
    matches!(name.rfind('.'), Some(i) if i > 0 && i + 1 < name.len())
}

/// `relative_require` without the extension of a Lua target.
pub fn bare_require(from: &str, to: &str) -> String {
    let text = relative_require(from, to);
    if is_lua(to) {
        match text.rfind('.') {
            Some(i) => text[..i].to_owned(),
            None => text,
        }
    } else {
        text
    }
}

/// Relative require string (explicit extension, `./` or `../` prefixed) from the
/// directory of `from` to `to`.
pub fn relative_require(from: &str, to: &str) -> String {
    let from_dir: Vec<&str> = parent(from).split('/').filter(|s| !s.is_empty()).collect();
    let to_parts: Vec<&str> = to.split('/').filter(|s| !s.is_empty()).collect();
    let mut common = 0;
    while common < from_dir.len()
        && common + 1 < to_parts.len()
        && from_dir[common] == to_parts[common]
    {
        common += 1;
    }
    let ups = from_dir.len() - common;
    let mut out = String::new();
    if ups == 0 {
        out.push_str("./");
    } else {
        for _ in 0..ups {
            out.push_str("../");
        }
    }
    out.push_str(&to_parts[common..].join("/"));
    out
}

/// One alias of a `.luaurc` file: `<dir>/.luaurc` maps `@<name>` to `<target>`.
#[derive(Clone, Debug, PartialEq, Eq)]
pub struct AliasDef {
    pub dir: String,
    pub name: String,
    pub target: String,
}

/// The require string written in `from` for the file `to`: through an alias of the
/// `.luaurc` governing `from` when one covers `to`, else a relative path.
pub fn require_text(from: &str, to: &str, aliases: &[AliasDef]) -> String {
    // the nearest .luaurc above `from`
    let mut governing: Option<&str> = None;
    for a in aliases {
        if from.starts_with(&format!("{}/", a.dir))
            && governing.map(|g| a.dir.len() > g.len()).unwrap_or(true)
        {
            governing = Some(&a.dir);
        }
    }
    if let Some(dir) = governing {
        for a in aliases.iter().filter(|a| a.dir == dir) {
            if let Some(rest) = to.strip_prefix(&format!("{}/", a.target)) {
                return format!("@{}/{}", a.name, rest);
            }
        }
    }
    relative_require(from, to)
}

#[derive(Clone, Debug)]
pub struct SourceFile {
    pub path: String,
    pub body_index: usize,
    pub version: u32,
    pub requires: Vec<String>,
    /// writes its requires through `.luaurc` aliases; such a file is never required by
    /// another one (darklua resolves aliases with the `.luaurc` nearest to the bundle
    /// *entry*, so an alias inside a required module would depend on who requires it -
    /// resolution semantics are C15, not modelled here)
    pub use_alias: bool,
    /// writes requires of Lua files without their extension (`require("./x")`), so that
    /// resolution goes through the candidate list (x, x.luau, x.lua, x/init, ...)
    pub bare: bool,
    /// writes its requires through the `here` source of the path require mode
    /// (`require("here/<path from the project location>")`); never required by another
    /// file, for the same reason as `use_alias`
    pub via_source: bool,
    /// Some(i): rendered with the marker of source `i` (byte-identical twins: two files
    /// with the same content in different places)
    pub marker_of: Option<usize>,
}

/// What the `here` source of the path require mode stands for.
#[derive(Clone, Debug, PartialEq, Eq)]
pub enum SourceBase {
    /// the configuration is an object: the directory of the file being processed
    RequirerDir,
    /// the directory of the configuration file
    Dir(String),
}

#[derive(Clone, Debug)]
pub struct Project {
    pub input: String,
    pub input_is_file: bool,
    pub sources: Vec<SourceFile>,
    /// non-Lua data files that may be required: (path, kind index)
    pub data: Vec<(String, String)>,
    pub other: Vec<FsEntry>,
    pub bundle: Option<String>,
    pub aliases: Vec<AliasDef>,
    /// requires are converted to Roblox instance paths through a sourcemap (no bundling)
    pub convert: bool,
    /// set once the invocation (where the configuration lives) is known
    pub source_base: SourceBase,
    /// luau mode: the root `.luaurc` defines no alias at first; the alias the root files
    /// use comes from the configuration (name with `@`, target)
    pub config_alias: Option<(String, String)>,
}

/// `require("here/...")` for the file `to`, `here` being the directory `base`.
/// darklua normalises the require string before it looks the source name up, so only
/// files below `base` can be reached; others are required relatively from `from`.
pub fn source_require(base: &str, from: &str, to: &str) -> String {
    let rel = relative_require(&join(base, "_"), to);
    match rel.strip_prefix("./") {
        Some(below) => format!("here/{}", below),
        None => relative_require(from, to),
    }
}

impl Project {
    pub fn marker(index: usize, version: u32) -> String {
        format!("m{}_{}", index, version)
    }

    pub fn render_source(&self, index: usize) -> String {
        let src = &self.sources[index];
        let requires: Vec<String> = src
            .requires
            .iter()
            .map(|to| {
                if src.use_alias {
                    require_text(&src.path, to, &self.aliases)
                } else if src.via_source {
                    match &self.source_base {
                        SourceBase::RequirerDir => source_require(parent(&src.path), &src.path, to),
                        SourceBase::Dir(dir) => source_require(dir, &src.path, to),
                    }
                } else if src.bare {
                    bare_require(&src.path, to)
                } else {
                    relative_require(&src.path, to)
                }
            })
            .collect();
        corpus::render_lua(
            corpus::BODIES[src.body_index],
            &Self::marker(src.marker_of.unwrap_or(index), src.version),
            &requires,
        )
    }

    pub fn entries(&self) -> Vec<FsEntry> {
        let mut entries = Vec::new();
        for i in 0..self.sources.len() {
            entries.push(FsEntry {
                path: self.sources[i].path.clone(),
                body: Body::Text(self.render_source(i)),
            });
        }
        for (path, content) in &self.data {
            entries.push(FsEntry {
                path: path.clone(),
                body: Body::Text(content.clone()),
            });
        }
        entries.extend(self.other.iter().cloned());
        entries
    }

    pub fn metas(&self) -> Vec<SourceMeta> {
        self.sources
            .iter()
            .map(|s| SourceMeta {
                path: s.path.clone(),
                requires: s.requires.clone(),
            })
            .collect()
    }
}

pub struct ProjectKnobs {
    pub max_sources: usize,
    pub allow_file_input: bool,
    pub allow_bundle: bool,
    pub memory_safe: bool,
    /// a bundled module may live above the working directory (`../outside/lib.lua`);
    /// not on the real file system, where the scratch directory is the working directory
    pub allow_outside: bool,
    /// files that require through a `sources` entry of the path require mode
    pub allow_source_alias: bool,
    /// luau mode: the root `.luaurc` may start without aliases, the configuration
    /// declaring the alias instead
    pub allow_late_luaurc: bool,
}

pub fn gen_project(rng: &mut Rng, knobs: &ProjectKnobs) -> Project {
    let input_is_file = knobs.allow_file_input && rng.chance(1, 7);
    let input_dir = (*rng.pick(INPUT_DIRS)).to_owned();
    let n = if input_is_file {
        1 + rng.below(3)
    } else {
        match rng.below(10) {
            0 => 1,
            1..=3 => 2,
            4..=6 => 3,
            7 => 4,
            8 => 5,
            _ => rng.range(6, knobs.max_sources.max(6)),
        }
    }
    .min(knobs.max_sources);
    let mut sources: Vec<SourceFile> = Vec::new();
    let mut attempts = 0;
    while sources.len() < n && attempts < 100 {
        attempts += 1;
        let dir = *rng.pick(SUB_DIRS);
        let stem = *rng.pick(STEMS);
        let ext = *rng.pick(EXTS);
        let path = join(&join(&input_dir, dir), &format!("{}.{}", stem, ext));
        // a path may not be a prefix directory of another one
        if sources
            .iter()
            .any(|s| s.path == path || s.path.starts_with(&format!("{}/", path)))
        {
            continue;
        }
        sources.push(SourceFile {
            path,
            body_index: rng.below(corpus::BODIES.len()),
            version: 0,
            requires: Vec::new(),
            use_alias: false,
            bare: false,
            via_source: false,
            marker_of: None,
        });
    }
    if !input_is_file && rng.chance(1, 8) {
        // sources whose file names start with a dot are sources like any other
        for (dir, name) in [("", ".dotfile.lua"), ("sub", ".defaults.luau")] {
            let path = join(&join(&input_dir, dir), name);
            if !sources.iter().any(|s| s.path == path) && rng.chance(2, 3) {
                sources.push(SourceFile {
                    path,
                    body_index: rng.below(corpus::BODIES.len()),
                    version: 0,
                    requires: Vec::new(),
                    use_alias: false,
                    bare: false,
                    via_source: false,
                    marker_of: None,
                });
            }
        }
    }
    if !input_is_file && rng.chance(1, 8) {
        // two sources whose paths differ only by letter case (the file systems used here
        // are case sensitive): both are sources in their own right
        let first = sources[0].path.clone();
        let name = file_name(&first).to_owned();
        let mut chars = name.chars();
        if let Some(c) = chars.next() {
            let twin_name: String = c.to_uppercase().chain(chars).collect();
            let twin = join(parent(&first), &twin_name);
            if twin != first && !sources.iter().any(|s| s.path == twin) {
                sources.push(SourceFile {
                    path: twin,
                    body_index: rng.below(corpus::BODIES.len()),
                    version: 0,
                    requires: Vec::new(),
                    use_alias: false,
                    bare: false,
                    via_source: false,
                    marker_of: None,
                });
            }
        }
    }
    let bundle = if knobs.allow_bundle && rng.chance(2, 5) {
        // in luau mode a module-folder file (init.lua) resolves relative requires from its
        // parent's parent: such files simply get no requires (see `is_module_folder_file`)
        Some(if rng.chance(1, 3) { "luau" } else { "path" }.to_owned())
    } else {
        None
    };
    let luau = bundle.as_deref() == Some("luau");
    if sources.len() >= 2 && rng.chance(1, 12) {
        // two files writing the same numbers in different spellings
        sources[0].body_index = 42;
        sources[1].body_index = 43;
    }
    if bundle.is_some() && rng.chance(1, 8) {
        // a type-heavy bundle: several inlined modules export the same type names
        for s in sources.iter_mut() {
            s.body_index = *rng.pick(corpus::TYPE_BODIES);
        }
    }
    let convert = bundle.is_none() && knobs.allow_bundle && !input_is_file && rng.chance(1, 6);
    let mut data: Vec<(String, String)> = Vec::new();
    if bundle.is_some() || convert {
        // acyclic requires: i may require j > i
        let count = sources.len();
        for i in 0..count {
            for j in (i + 1)..count {
                if rng.chance(2, 5) && !(luau && is_module_folder_file(&sources[i].path)) {
                    let to = sources[j].path.clone();
                    sources[i].requires.push(to);
                }
            }
        }
        // data files
        if bundle.is_some() && rng.chance(1, 2) {
            let kinds: [(&str, &[&str]); 4] = [
                ("json", corpus::DATA_JSON),
                ("yaml", corpus::DATA_YAML),
                ("toml", corpus::DATA_TOML),
                ("txt", corpus::DATA_TXT),
            ];
            let nd = rng.range(1, 2);
            for d in 0..nd {
                let (ext, bodies) = kinds[rng.below(kinds.len())];
                let path = join(&join(&input_dir, "data"), &format!("d{}.{}", d, ext));
                let content = corpus::render_data(*rng.pick(bodies), &format!("d{}_0", d));
                let requirer = rng.below(sources.len());
                if !(luau && is_module_folder_file(&sources[requirer].path)) {
                    sources[requirer].requires.push(path.clone());
                }
                data.push((path, content));
            }
        }
    }
    // some files write their requires without extension, when that is unambiguous in the
    // initial tree (one file per stem, no directory named like the stem)
    {
        let stem_of = |p: &str| -> String {
            match p.rfind('.') {
                Some(i) if i > p.rfind('/').map(|x| x + 1).unwrap_or(0) => p[..i].to_owned(),
                _ => p.to_owned(),
            }
        };
        let all_paths: Vec<String> = sources.iter().map(|s| s.path.clone()).collect();
        for i in 0..sources.len() {
            if sources[i].requires.is_empty() || !rng.chance(1, 3) {
                continue;
            }
            let unambiguous = sources[i].requires.iter().all(|t| {
                if !is_lua(t) {
                    return true;
                }
                let stem = stem_of(t);
                all_paths.iter().filter(|p| stem_of(p) == stem).count() == 1
                    && !all_paths.iter().any(|p| p.starts_with(&format!("{}/", stem)))
            });
            if unambiguous {
                sources[i].bare = true;
            }
        }
    }
    let mut other: Vec<FsEntry> = Vec::new();
    if bundle.is_some() && knobs.allow_outside && rng.chance(1, 5) {
        // required through a path that first descends and then climbs above its start
        let outside = "../outside/lib.lua".to_owned();
        let requirer = rng.below(sources.len());
        if !(luau && is_module_folder_file(&sources[requirer].path)) && !sources[requirer].bare {
            sources[requirer].requires.push(outside.clone());
            other.push(FsEntry {
                path: outside,
                body: Body::Text("mark(\"outside_0\")\nreturn { \"outside\" }\n".to_owned()),
            });
        }
    }
    let mut aliases: Vec<AliasDef> = Vec::new();
    let mut config_alias: Option<(String, String)> = None;
    if (bundle.is_some() || convert) && !input_is_file && rng.chance(1, 3) {
        // two .luaurc files defining the same alias differently: which one governs a
        // file decides what `@lib/...` means there
        let root_target = join(&input_dir, "sub");
        let nested_dir = join(&input_dir, "other dir");
        let nested_target = join(&input_dir, "dots.v1.2");
        aliases.push(AliasDef {
            dir: input_dir.clone(),
            name: "lib".to_owned(),
            target: root_target.clone(),
        });
        aliases.push(AliasDef {
            dir: nested_dir.clone(),
            name: "lib".to_owned(),
            target: nested_target.clone(),
        });
        if luau && knobs.allow_late_luaurc && rng.chance(1, 2) {
            config_alias = Some(("@lib".to_owned(), root_target.clone()));
            other.push(FsEntry {
                path: join(&input_dir, ".luaurc"),
                body: Body::Text("{ \"languageMode\": \"strict\" }\n".to_owned()),
            });
        } else {
            other.push(FsEntry {
                path: join(&input_dir, ".luaurc"),
                body: Body::Text("{ \"aliases\": { \"lib\": \"./sub\" } }\n".to_owned()),
            });
        }
        other.push(FsEntry {
            path: join(&nested_dir, ".luaurc"),
            body: Body::Text("{ \"aliases\": { \"lib\": \"../dots.v1.2\" } }\n".to_owned()),
        });
        let ensure = |sources: &mut Vec<SourceFile>, path: String, rng: &mut Rng| {
            if !sources.iter().any(|s| s.path == path) {
                sources.push(SourceFile {
                    path,
                    body_index: rng.below(corpus::BODIES.len()),
                    version: 0,
                    requires: Vec::new(),
                    use_alias: false,
                    bare: false,
                    via_source: false,
                    marker_of: None,
                });
            }
        };
        let root_lib = join(&root_target, "libmod.lua");
        let nested_lib = join(&nested_target, "libmod.lua");
        let root_user = join(&input_dir, "rootuser.lua");
        let nested_user = join(&nested_dir, "nesteduser.lua");
        ensure(&mut sources, root_lib.clone(), rng);
        ensure(&mut sources, nested_lib.clone(), rng);
        ensure(&mut sources, root_user.clone(), rng);
        ensure(&mut sources, nested_user.clone(), rng);
        for s in sources.iter_mut() {
            if s.path == root_user {
                s.use_alias = true;
                s.requires = vec![root_lib.clone()];
            }
            if s.path == nested_user {
                s.use_alias = true;
                s.requires = vec![nested_lib.clone()];
            }
        }
        if rng.chance(1, 3) {
            // byte-identical twins: the same text `require("@lib/libmod.lua")` means
            // another file for each of them
            let root_index = sources.iter().position(|s| s.path == root_user);
            let body = root_index.map(|i| sources[i].body_index);
            if let (Some(root_index), Some(body)) = (root_index, body) {
                for s in sources.iter_mut() {
                    if s.path == nested_user {
                        s.body_index = body;
                        s.marker_of = Some(root_index);
                    }
                }
            }
        }
    }
    if knobs.allow_source_alias && bundle.as_deref() == Some("path") && !input_is_file && rng.chance(1, 3) {
        // two files in different directories requiring through the `here` source: what
        // `here` is must be worked out per file when the configuration has no location
        let targets: Vec<String> = sources
            .iter()
            .filter(|s| !s.use_alias && !(is_module_folder_file(&s.path)))
            .map(|s| s.path.clone())
            .collect();
        if !targets.is_empty() {
            let deep_lib = join(&input_dir, "sub/deep/srclib.lua");
            if !sources.iter().any(|s| s.path == deep_lib) {
                sources.push(SourceFile {
                    path: deep_lib.clone(),
                    body_index: rng.below(corpus::BODIES.len()),
                    version: 0,
                    requires: Vec::new(),
                    use_alias: false,
                    bare: false,
                    via_source: false,
                    marker_of: None,
                });
            }
            for (n, user) in [join(&input_dir, "srcuser.lua"), join(&input_dir, "sub/deep/srcuser2.lua")].into_iter().enumerate() {
                if sources.iter().any(|s| s.path == user) {
                    continue;
                }
                let target = if n == 1 { deep_lib.clone() } else { rng.pick(&targets).clone() };
                sources.push(SourceFile {
                    path: user,
                    body_index: rng.below(corpus::BODIES.len()),
                    version: 0,
                    requires: vec![target],
                    use_alias: false,
                    bare: false,
                    via_source: true,
                    marker_of: None,
                });
            }
        }
    }
    if convert && sources.len() >= 2 && rng.chance(1, 3) {
        // two sources that require each other: harmless without bundling (requires are only
        // rewritten), and the work of a long-lived worker must not trip over it either
        let pairs: Vec<(usize, usize)> = (0..sources.len())
            .flat_map(|i| sources[i].requires.iter().filter_map(move |r| Some((i, r.clone()))).collect::<Vec<_>>())
            .filter_map(|(i, r)| sources.iter().position(|s| s.path == r).map(|j| (i, j)))
            .filter(|(i, j)| i != j)
            .collect();
        if let Some((i, j)) = pairs.first().cloned() {
            let back = sources[i].path.clone();
            if !sources[j].requires.contains(&back) && !sources[j].use_alias && !sources[i].use_alias {
                sources[j].requires.push(back);
                sources[i].bare = false;
                sources[j].bare = false;
            }
        }
    }
    if luau && !input_is_file && rng.chance(1, 4) {
        // a module folder: the same literal `require("./helper_mod")` written in `pkg/init.luau`
        // (resolved from the parent of the folder) and in `pkg/other.luau` (resolved from
        // `pkg`) means two different files; which is which is darklua's business, but it
        // must not depend on which of the two is processed first
        let raw = |marker: &str, require: bool| {
            Body::Text(format!(
                "{}mark(\"{}\")\nreturn {{ \"{}\" }}\n",
                if require { "local u = require(\"./helper_mod\")\nuse(u)\n" } else { "" },
                marker,
                marker
            ))
        };
        for (path, marker, require) in [
            ("pkg/init.luau", "pkg_init", true),
            ("pkg/other.luau", "pkg_other", true),
            ("helper_mod.luau", "outer_helper", false),
            ("pkg/helper_mod.luau", "inner_helper", false),
        ] {
            let path = join(&input_dir, path);
            if !sources.iter().any(|s| s.path == path) && !other.iter().any(|e| e.path == path) {
                other.push(FsEntry {
                    path,
                    body: raw(marker, require),
                });
            }
        }
    }
    if !input_is_file {
        if rng.chance(1, 2) {
            other.push(FsEntry {
                path: join(&input_dir, "notes.txt"),
                body: Body::Text("not lua\n".to_owned()),
            });
        }
        if rng.chance(1, 4) {
            other.push(FsEntry {
                path: join(&input_dir, "sub/README"),
                body: Body::Text("readme\n".to_owned()),
            });
        }
        if rng.chance(1, 4) {
            other.push(FsEntry {
                path: join(&input_dir, "lua"),
                body: Body::Text("a file named lua without extension\n".to_owned()),
            });
        }
        if !knobs.memory_safe && rng.chance(1, 5) {
            // a directory named like a Lua file
            other.push(FsEntry {
                path: join(&input_dir, "fake.lua"),
                body: Body::Dir,
            });
            if rng.chance(1, 2) {
                other.push(FsEntry {
                    path: join(&input_dir, "fake.lua/readme.md"),
                    body: Body::Text("inside\n".to_owned()),
                });
            }
        }
        if !knobs.memory_safe && rng.chance(1, 6) {
            other.push(FsEntry {
                path: join(&input_dir, "empty dir"),
                body: Body::Dir,
            });
        }
        if rng.chance(1, 6) {
            // not Lua sources: upper-case extension, a name that is only an extension
            other.push(FsEntry {
                path: join(&input_dir, "UPPER.LUA"),
                body: Body::Text("return 'upper case extension'\n".to_owned()),
            });
            other.push(FsEntry {
                path: join(&input_dir, "sub/.lua"),
                body: Body::Text("return 'no stem'\n".to_owned()),
            });
        }
        if !knobs.memory_safe && rng.chance(1, 6) {
            // a directory with the stem of a source next to it
            if let Some(first) = sources.first() {
                let stem_dir = match first.path.rfind('.') {
                    Some(i) => first.path[..i].to_owned(),
                    None => first.path.clone(),
                };
                if !sources.iter().any(|s| s.path.starts_with(&format!("{}/", stem_dir)) || s.path == stem_dir) {
                    other.push(FsEntry {
                        path: join(&stem_dir, "inside.txt"),
                        body: Body::Text("in a directory named like a source\n".to_owned()),
                    });
                }
            }
        }
    }
    if bundle.is_some() {
        // a module without a `return` cannot be inlined: the statement-less bodies are for
        // projects that do not bundle
        for s in sources.iter_mut() {
            if s.body_index >= corpus::FIRST_EMPTY_BODY {
                s.body_index = 0;
            }
        }
    }
    let input = if input_is_file {
        sources[0].path.clone()
    } else {
        input_dir
    };
    Project {
        input,
        input_is_file,
        sources,
        data,
        other,
        bundle,
        aliases,
        convert,
        source_base: SourceBase::Dir(String::new()),
        config_alias,
    }
}

/// The sources darklua is expected to pick up, by the harness's own reading of the tree.
pub fn expected_sources(entries: &[FsEntry], input: &str, input_is_file: bool) -> Vec<String> {
    let input = normalize(input);
    if input_is_file {
        return vec![input];
    }
    // an empty input is the working directory itself (`darklua process . <output>`)
    let prefix = if input.is_empty() { String::new() } else { format!("{}/", input) };
    let mut out: Vec<String> = entries
        .iter()
        .filter(|e| !e.path.starts_with("../") && !e.path.starts_with('/'))
        .filter(|e| e.body != Body::Dir && e.path.starts_with(&prefix) && is_lua(&e.path))
        .map(|e| e.path.clone())
        .collect();
    // a symbolic link to a directory of the tree: the walk follows it, so the Lua files
    // below the target are sources under the link's name as well
    for link in entries.iter().filter(|e| e.path.starts_with(&prefix)) {
        if let Body::Symlink(target) = &link.body {
            let target = normalize(&join(parent(&link.path), target));
            let below = format!("{}/", target);
            for e in entries {
                if e.body != Body::Dir && !matches!(e.body, Body::Symlink(_)) && is_lua(&e.path) {
                    if let Some(rel) = e.path.strip_prefix(&below) {
                        out.push(join(&link.path, rel));
                    }
                }
            }
        }
    }
    out.sort();
    out.dedup();
    out
}

/// Lexical normalisation of a relative `/`-separated path (`./`, `a/../b`).
/// Lexical normalisation only (what darklua's `normalize_path` gives): `..` segments that
/// climb above the start are kept.
pub fn lexical_normalize(path: &str) -> String {
    let mut parts: Vec<&str> = Vec::new();
    for c in path.split('/') {
        match c {
            "" | "." => {}
            ".." => {
                if matches!(parts.last(), Some(&p) if p != "..") {
                    parts.pop();
                } else {
                    parts.push("..");
                }
            }
            other => parts.push(other),
        }
    }
    parts.join("/")
}

pub fn normalize(path: &str) -> String {
    let mut parts: Vec<&str> = Vec::new();
    for c in path.split('/') {
        match c {
            "" | "." => {}
            ".." => {
                if matches!(parts.last(), Some(&p) if p != "..") {
                    parts.pop();
                } else {
                    parts.push("..");
                }
            }
            other => parts.push(other),
        }
    }
    // a path that climbs above the simulated working directory and comes back into it
    // (`../cwd/x`, `../../sim/cwd/x`) names `x`
    let cwd: Vec<&str> = crate::simfs::SIM_CWD.split('/').filter(|c| !c.is_empty()).collect();
    let ups = parts.iter().take_while(|p| **p == "..").count();
    if ups > 0 && ups <= cwd.len() && parts.len() >= 2 * ups && parts[ups..2 * ups] == cwd[cwd.len() - ups..] {
        parts.drain(..2 * ups);
    }
    parts.join("/")
}

/// mirror(p): where the output of source `p` must be written.
/// `output_is_dir` / `output_is_file`: state of the output path before the run.
pub fn mirror(
    opts: &OptSpec,
    input_is_file: bool,
    output_is_dir: bool,
    output_is_file: bool,
    source: &str,
) -> String {
    let output = match &opts.output {
        None => return source.to_owned(),
        Some(output) => output.clone(),
    };
    if input_is_file {
        if output_is_dir {
            join(&output, file_name(source))
        } else if output_is_file || has_extension(&output) {
            output
        } else {
            join(&output, file_name(source))
        }
    } else {
        let input = normalize(&opts.input);
        let rel = source
            .strip_prefix(&format!("{}/", input))
            .unwrap_or(source);
        join(&output, rel)
    }
}

#[derive(Clone, Debug)]
pub struct Invocation {
    pub opts: OptSpec,
    pub extra_entries: Vec<FsEntry>,
}

pub const OUTPUT_DIRS: &[&str] = &[
    "out",
    "dist/nested",
    "build dir",
    "out.d",
    "src-out",
    "in2",
    "a.b.out",
];

/// Choose how darklua is invoked for this project and where the configuration lives.
pub fn gen_invocation(
    rng: &mut Rng,
    project: &Project,
    config_text: &str,
    allow_in_place: bool,
    allow_object: bool,
    backend: Backend,
    allow_climb: bool,
) -> Invocation {
    // spellings that go down, climb above the working directory and come back
    let climb = allow_climb && backend == Backend::SimFs;
    let cwd_name = crate::simfs::SIM_CWD.rsplit('/').next().unwrap_or("");
    let mut extra: Vec<FsEntry> = Vec::new();
    let config = match rng.below(if allow_object && !project.convert && project.config_alias.is_none() { 4 } else { 3 }) {
        0 => {
            let name = if rng.chance(1, 2) {
                ".darklua.json"
            } else {
                ".darklua.json5"
            };
            extra.push(FsEntry {
                path: name.to_owned(),
                body: Body::Text(config_text.replace("{CFGREL}", "./")),
            });
            ConfigSource::Default
        }
        1 | 2 => {
            let path = if rng.chance(1, 2) {
                "cfg/darklua.json5"
            } else {
                "custom-config.json"
            };
            let rel = if parent(path).is_empty() { "./" } else { "../" };
            extra.push(FsEntry {
                path: path.to_owned(),
                body: Body::Text(config_text.replace("{CFGREL}", rel)),
            });
            ConfigSource::At(path.to_owned())
        }
        _ => ConfigSource::Object(config_text.to_owned()),
    };
    let output: Option<String> = if allow_in_place && rng.chance(1, 5) {
        None
    } else if project.input_is_file {
        Some(
            (*rng.pick(&[
                "out.lua",
                "out",
                "dist/result.luau",
                "existing-dir",
                "new/dir",
                "existing.dir",
            ]))
            .to_owned(),
        )
    } else if allow_in_place && backend != Backend::Memory && rng.chance(1, 25) {
        // the output location of a directory input exists as a regular file: no
        // destination directory can be created, every source must be reported
        let name = if rng.chance(1, 2) { "blocked-output" } else { "blocked.lua" };
        extra.push(FsEntry {
            path: name.to_owned(),
            body: Body::Text("a regular file where the output directory should be\n".to_owned()),
        });
        Some(name.to_owned())
    } else {
        Some((*rng.pick(OUTPUT_DIRS)).to_owned())
    };
    // other spellings of the same output path
    let output: Option<String> = output.map(|o| match rng.below(10) {
        0 => format!("./{}", o),
        1 if !has_extension(&o) => format!("{}/", o),
        2 => {
            // a detour through the (existing) first directory of the input
            let first = project.input.split('/').next().unwrap_or("").to_owned();
            if first.is_empty() || first.contains('.') || project.input_is_file && !project.input.contains('/') {
                o
            } else {
                format!("{}/../{}", first, o)
            }
        }
        3 if climb && rng.chance(1, 2) => {
            let first = project.input.split('/').next().unwrap_or("").to_owned();
            if first.is_empty() || first.contains('.') || project.input_is_file && !project.input.contains('/') {
                format!("../{}/{}", cwd_name, o)
            } else {
                format!("{}/../../{}/{}", first, cwd_name, o)
            }
        }
        _ => o,
    });
    if let Some(output) = &output.as_ref().map(|o| normalize(o)).filter(|o| !o.is_empty()) {
        let is_existing_dir_case = output == "existing-dir" || output == "existing.dir";
        if is_existing_dir_case && backend != Backend::Memory {
            extra.push(FsEntry {
                path: output.clone(),
                body: Body::Dir,
            });
        }
        // pre-existing foreign content in the output location
        if !project.input_is_file && rng.chance(1, 2) {
            if backend != Backend::Memory {
                extra.push(FsEntry {
                    path: output.clone(),
                    body: Body::Dir,
                });
            }
            if rng.chance(2, 3) {
                extra.push(FsEntry {
                    path: join(output, "foreign.txt"),
                    body: Body::Text("foreign file\n".to_owned()),
                });
            }
            if rng.chance(1, 3) {
                extra.push(FsEntry {
                    path: join(output, "keep/me.lua"),
                    body: Body::Text("return 'foreign lua'\n".to_owned()),
                });
            }
            if backend != Backend::Memory && rng.chance(1, 4) {
                extra.push(FsEntry {
                    path: join(output, "old-empty"),
                    body: Body::Dir,
                });
            }
            if backend != Backend::Memory && rng.chance(1, 3) {
                // a folder that mirrors a source folder exists already (empty): darklua
                // fills it, and must leave it in place when its sources go away again
                let sub = *rng.pick(&["sub", "other dir", "sub/deep", "dots.v1.2"]);
                extra.push(FsEntry {
                    path: join(output, sub),
                    body: Body::Dir,
                });
            }
        }
    }
    // other spellings of the same input path
    let input = match rng.below(12) {
        0 | 1 => format!("./{}", project.input),
        2 if !project.input_is_file => format!("{}/", project.input),
        4 if !project.input_is_file => format!("{}/.", project.input),
        5 if !project.input_is_file => format!("./{}/./", project.input),
        3 => {
            let first = project.input.split('/').next().unwrap_or("").to_owned();
            if first.is_empty() || project.input_is_file {
                project.input.clone()
            } else {
                format!("{}/../{}", first, project.input)
            }
        }
        // (not when a file filter is anchored at the input directory: filters see the path
        // as darklua spells it, `../cwd/src/...`)
        6 if climb
            && rng.chance(1, 2)
            && !config_text.contains(&format!("\"{}/", normalize(&project.input)))
            && !config_text.contains(&format!("\"{}/", parent(&normalize(&project.input)))) =>
        {
            let first = project.input.split('/').next().unwrap_or("").to_owned();
            if first.is_empty() || project.input_is_file && !project.input.contains('/') {
                format!("../{}/{}", cwd_name, project.input)
            } else {
                format!("{}/../../{}/{}", first, cwd_name, project.input)
            }
        }
        // down into an existing sub-directory and straight back up: a trailing `..`
        7 if allow_climb && !project.input_is_file => {
            let base = normalize(&project.input);
            let prefix = format!("{}/", base);
            let sub = project.sources.iter().find_map(|s| {
                let rest = s.path.strip_prefix(&prefix)?;
                let (first, _) = rest.split_once('/')?;
                Some(first.to_owned())
            });
            match sub {
                Some(sub) if !base.is_empty() && !base.starts_with("..") && project.input == base => {
                    format!("{}/{}/..", base, sub)
                }
                _ => project.input.clone(),
            }
        }
        _ => project.input.clone(),
    };
    Invocation {
        opts: OptSpec {
            input,
            output,
            config,
            fail_fast: false,
            generator_override: if rng.chance(1, 10) {
                Some((*rng.pick(&["dense", "readable", "retain_lines"])).to_owned())
            } else {
                None
            },
            include_deps: None,
        },
        extra_entries: extra,
    }
}

// ------------------------------------------------------------------ top-level file filters

fn segment_match(pattern: &[char], text: &[char]) -> bool {
    match pattern.first() {
        None => text.is_empty(),
        Some('*') => (0..=text.len()).any(|i| segment_match(&pattern[1..], &text[i..])),
        Some(c) => text.first() == Some(c) && segment_match(&pattern[1..], &text[1..]),
    }
}

fn segments_match(pattern: &[&str], path: &[&str]) -> bool {
    match pattern.first() {
        None => path.is_empty(),
        Some(&"**") => (0..=path.len()).any(|i| segments_match(&pattern[1..], &path[i..])),
        Some(p) => match path.first() {
            Some(t) => {
                let pc: Vec<char> = p.chars().collect();
                let tc: Vec<char> = t.chars().collect();
                segment_match(&pc, &tc) && segments_match(&pattern[1..], &path[1..])
            }
            None => false,
        },
    }
}

/// The harness's own evaluation of the glob subset it generates: `**` (any number of
/// path segments), `*` (any characters inside one segment) and literals.
pub fn glob_match(pattern: &str, path: &str) -> bool {
    let pattern: Vec<&str> = pattern.split('/').filter(|s| !s.is_empty()).collect();
    let path: Vec<&str> = path.split('/').filter(|s| !s.is_empty()).collect();
    segments_match(&pattern, &path)
}

/// Is `path` selected by the top-level `apply_to_files` / `skip_files` of this
/// configuration text (documented semantics: at least one apply pattern or none given,
/// and no skip pattern)?
pub fn config_selects(config_text: &str, path: &str) -> bool {
    let value: serde_json::Value = match serde_json::from_str(config_text) {
        Ok(v) => v,
        Err(_) => return true,
    };
    let list = |key: &str| -> Vec<String> {
        match value.get(key) {
            Some(serde_json::Value::String(s)) => vec![s.clone()],
            Some(serde_json::Value::Array(a)) => a
                .iter()
                .filter_map(|v| v.as_str().map(str::to_owned))
                .collect(),
            _ => Vec::new(),
        }
    };
    let apply = list("apply_to_files");
    let skip = list("skip_files");
    if !apply.is_empty() && !apply.iter().any(|p| glob_match(p, path)) {
        return false;
    }
    !skip.iter().any(|p| glob_match(p, path))
}

pub const FILTER_PATTERNS: &[&str] = &[
    "**/*.lua",
    "**/*.luau",
    "**/sub/**",
    "**/a.*",
    "**/init.*",
    "**/*e*",
    "**/other dir/*",
    "**/m*",
];
