import json,sys
r=json.load(open(sys.argv[1]))
s=r['scenario']
print('opts',json.dumps(s['opts']))
print('backend',s.get('backend'),'add_source',s.get('use_add_source'), 'layer', s.get('layer'))
for e in s['entries']: print('  entry',e['path'], json.dumps(e['body'])[:int(sys.argv[2]) if len(sys.argv)>2 else 150])
for o in s.get('ops',[]): print('  op',json.dumps(o)[:int(sys.argv[2]) if len(sys.argv)>2 else 300])
for k in ('bad_files','unwritable','faults','transient'):
    if k in s: print(' ',k,s[k])
print(r['message'][:900])
