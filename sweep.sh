#!/bin/sh
# False-alarm sweep: the quick tier of one property under many seeds on the unchanged tree.
#   ./sweep.sh <C10|C11> <first seed> <last seed>
PROP="$1"; FROM="$2"; TO="$3"
DIR="$(cd "$(dirname "$0")" && pwd)"
cp "$DIR/evidence/$PROP.json" "/tmp/sweep-evidence-$PROP.bak" 2>/dev/null
bad=0
s="$FROM"
while [ "$s" -le "$TO" ]; do
    out="$(VERIF_SEED=$s "$DIR/check" "$PROP" --tier quick 2>&1)"
    code=$?
    line="$(echo "$out" | grep -E "^$PROP:" | cut -c1-160)"
    echo "seed=$s exit=$code $line"
    if [ $code -ne 0 ]; then
        bad=$((bad + 1))
        echo "$out" | grep -E "^VIOLATION|^  clause|^HARNESS" | head -6
    fi
    s=$((s + 1))
done
cp "/tmp/sweep-evidence-$PROP.bak" "$DIR/evidence/$PROP.json" 2>/dev/null
echo "sweep $PROP seeds $FROM..$TO: $bad non-zero exit(s)"
[ $bad -eq 0 ]
