#!/bin/sh
# Apply a seeded change to /repo, run a check against it, undo the change straight away.
#   ./seedtest.sh <patch.diff> <C10|C11> [quick|thorough]
PATCH="$1"; PROP="$2"; TIER="${3:-quick}"
DIR="$(cd "$(dirname "$0")" && pwd)"
if [ -n "$(git -C /repo status --porcelain --untracked-files=no)" ]; then echo "/repo is dirty"; exit 2; fi
git -C /repo apply "$PATCH" || { echo "patch does not apply"; exit 2; }
cp "$DIR/evidence/$PROP.json" "/tmp/evidence-$PROP.bak" 2>/dev/null
"$DIR/check" "$PROP" --tier "$TIER" > "/tmp/seedtest-$PROP.out" 2>&1
status=$?
git -C /repo checkout -- .
cp "/tmp/evidence-$PROP.bak" "$DIR/evidence/$PROP.json" 2>/dev/null
grep -E "^VIOLATION|^  clause|^HARNESS|^C1[01]:" "/tmp/seedtest-$PROP.out" | cut -c1-220 | head -20
echo "exit=$status"
exit $status
