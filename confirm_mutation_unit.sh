#!/bin/sh
# Like confirm_mutation.sh, for a demonstration that is a unit-test module to be appended to
# a source file. Usage: confirm_mutation_unit.sh <worktree> <id> <source file> <test filter>
WT="$1"; ID="$2"; SRC="$3"; FILTER="$4"
OUT="/verif/seeded/$ID"; mkdir -p "$OUT"
cd "$WT" || exit 2
cp _mutation/patch.diff "$OUT/patch.diff"
cp _mutation/mutation_demo.rs "$OUT/mutation_demo.rs"
cp _mutation/README.md "$OUT/agent_README.md" 2>/dev/null
git checkout -q -- . ; rm -f tests/mutation_demo.rs
git apply _mutation/patch.diff || { echo "patch does not apply" > "$OUT/confirm.log"; exit 2; }
{
echo "== existing suite WITH change (expected: passes)"
cargo test --workspace --no-fail-fast --offline 2>&1 | grep -E "^test result|FAILED|failed"
cat _mutation/mutation_demo.rs >> "$SRC"
echo "== demo (appended to $SRC) WITH change (expected: fails)"
cargo test --offline --bin darklua "$FILTER" 2>&1 | grep -E "^test |test result"
git checkout -q -- .
cat _mutation/mutation_demo.rs >> "$SRC"
echo "== demo WITHOUT change (expected: passes)"
cargo test --offline --bin darklua "$FILTER" 2>&1 | grep -E "^test |test result"
git checkout -q -- .
} > "$OUT/confirm.log" 2>&1
echo "confirmed $ID"; tail -3 "$OUT/confirm.log"
